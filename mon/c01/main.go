// C01 monitor: operation histories against a plain list-of-rows model, with a
// full observation (every access path + invariant hook) after every step.
package main

import (
	"fmt"
	"regexp"
	"sort"
	"strings"

	"github.com/evolbioinfo/goalign/align"

	"verif/lib/conc"
	"verif/lib/gen"
	"verif/lib/h"
	"verif/lib/mon"
	"verif/lib/ref"
)

type mrow struct{ name, seq string }

type model struct {
	rows    []mrow
	isAlign bool
	alpha   int
	policy  int
	ever    map[string]bool // every name ever carried by a row
}

func (m *model) clone() *model {
	c := *m
	c.rows = append([]mrow(nil), m.rows...)
	c.ever = map[string]bool{}
	for k := range m.ever {
		c.ever[k] = true
	}
	return &c
}

func (m *model) length() int {
	if len(m.rows) == 0 {
		return -1
	}
	return len(m.rows[0].seq)
}

func (m *model) has(name string) int {
	for i, r := range m.rows {
		if r.name == name {
			return i
		}
	}
	return -1
}

func (m *model) dupNames() bool {
	seen := map[string]bool{}
	for _, r := range m.rows {
		if seen[r.name] {
			return true
		}
		seen[r.name] = true
	}
	return false
}

func (m *model) note() {
	for _, r := range m.rows {
		m.ever[r.name] = true
	}
}

// add applies the documented AddSequence meaning. Returns (rejected, changed).
func (m *model) add(name, seq string) (rejected bool) {
	i := m.has(name)
	if i >= 0 && m.policy == align.IGNORE_NAME {
		return false
	}
	if i >= 0 && m.policy == align.IGNORE_SEQUENCE && m.rows[i].seq == seq {
		return false
	}
	nn := name
	for k := 1; m.has(nn) >= 0; k++ {
		nn = fmt.Sprintf("%s_%04d", name, k)
	}
	if m.isAlign && len(m.rows) > 0 && len(seq) != m.length() {
		return true
	}
	m.rows = append(m.rows, mrow{nn, seq})
	return false
}

func (m *model) snapshot() gen.Rows {
	r := make(gen.Rows, len(m.rows))
	for i, x := range m.rows {
		r[i] = gen.Seq{Name: x.name, Seq: x.seq}
	}
	return r
}

type state struct {
	c   *mon.Case
	m   *model
	sb  align.SeqBag    // always set
	al  align.Alignment // set when the container is an alignment
	ops []string
	// containers left behind by Clone / CloneSeqBag / SubAlign / Unalign with the content they must keep
	kept []keptContainer
	// never set any more (an empty alignment remembering a length is a violation since fix 175cbbc)
	staleLen bool
	reMap    map[string]string // name map handed to the previous RenameRegexp
	hadRows  bool              // the container held at least one row since its creation / last Clear
}

type keptContainer struct {
	op   string
	sb   align.SeqBag
	rows gen.Rows
	// the copy may share residue buffers with this container by construction (Sample hands the rows' bytes on):
	// names, row order, number of rows, row lengths and the name index are still its own
	shape bool
}

// leaveBehind remembers the current container before the history moves on to a copy of it.
func (s *state) leaveBehind(op string) {
	s.kept = append(s.kept, keptContainer{op: op, sb: s.sb, rows: s.m.snapshot()})
}

// checkKept: a copy owns its data - whatever happened to it, the containers left behind are unchanged.
func (s *state) checkKept() {
	for _, k := range s.kept {
		if k.shape {
			got := safeSnap(k.sb)
			ok := len(got) == len(k.rows)
			for i := 0; ok && i < len(got); i++ {
				ok = got[i].Name == k.rows[i].Name && len(got[i].Seq) == len(k.rows[i].Seq)
				if ok {
					if _, found := k.sb.GetSequence(got[i].Name); !found {
						ok = false
					}
				}
			}
			if al, isAl := k.sb.(align.Alignment); ok && isAl && len(got) > 0 && al.Length() != len(got[0].Seq) {
				ok = false
			}
			if inv := h.Invariants(k.sb); ok && len(inv) > 0 {
				ok = false
			}
			if !ok {
				s.c.Failf(k.op+":source-changed-through-the-sample", "after ops %v\nnames, order, row lengths or name index of the container that was sampled changed while the sample was being modified\nexpected names / lengths of %s\ngot %s (Length()/invariants: %v)", s.ops, h.Show(k.rows), h.Show(got), h.Invariants(k.sb))
				return
			}
			continue
		}
		if got := safeSnap(k.sb); !h.EqRows(got, k.rows) {
			s.c.Failf(k.op+":copy-shares-data", "after ops %v\nthe container left behind by %s changed while its copy was being modified\nexpected=%s\ngot     =%s", s.ops, k.op, h.Show(k.rows), h.Show(got))
			return
		}
	}
}

func (s *state) fail(sig, format string, a ...interface{}) {
	s.c.Failf(sig, "after ops %v\n%s\nmodel=%s\nimpl =%s", s.ops, fmt.Sprintf(format, a...), h.Show(s.m.snapshot()), h.Show(safeSnap(s.sb)))
}

func safeSnap(sb align.SeqBag) (r gen.Rows) {
	defer func() {
		if recover() != nil {
			r = gen.Rows{{Name: "<Iterate panicked>"}}
		}
	}()
	return h.Snap(sb)
}

// observe is the "full observation": every access path must agree with the model.
func (s *state) observe(op string) bool {
	m, sb := s.m, s.sb
	bad := func(kind, format string, a ...interface{}) bool {
		s.fail(op+":"+kind, format, a...)
		return false
	}
	exp := m.snapshot()
	if n := sb.NbSequences(); n != len(exp) {
		return bad("nbseq", "NbSequences()=%d, model has %d rows", n, len(exp))
	}
	var hook interface{} = sb
	if p := h.Invariants(hook); len(p) > 0 {
		return bad("invariant-hook", "%s", strings.Join(p, "; "))
	}
	it := h.Snap(sb)
	if !h.EqRows(it, exp) {
		return bad("iterate", "Iterate disagrees with the model")
	}
	var itc gen.Rows
	sb.IterateChar(func(n string, q []uint8) bool { itc = append(itc, gen.Seq{Name: n, Seq: string(q)}); return false })
	if !h.EqRows(itc, exp) && len(exp) > 0 {
		return bad("iteratechar", "IterateChar disagrees with the model")
	}
	var ita gen.Rows
	sb.IterateAll(func(n string, q []uint8, c string) bool {
		ita = append(ita, gen.Seq{Name: n, Seq: string(q)})
		return false
	})
	if !h.EqRows(ita, exp) && len(exp) > 0 {
		return bad("iterateall", "IterateAll disagrees with the model")
	}
	seqs := sb.Sequences()
	if len(seqs) != len(exp) {
		return bad("sequences", "Sequences() has %d entries", len(seqs))
	}
	for i, e := range exp {
		if seqs[i] == nil || seqs[i].Name() != e.Name || seqs[i].Sequence() != e.Seq {
			return bad("sequences", "Sequences()[%d] disagrees", i)
		}
		q, ok := sb.Sequence(i)
		if !ok || q.Name() != e.Name || q.Sequence() != e.Seq {
			return bad("byindex", "Sequence(%d) disagrees", i)
		}
		str, ok := sb.GetSequenceById(i)
		if !ok || str != e.Seq {
			return bad("byindex", "GetSequenceById(%d)=%q,%v", i, str, ok)
		}
		ch, ok := sb.GetSequenceCharById(i)
		if !ok || string(ch) != e.Seq {
			return bad("byindex", "GetSequenceCharById(%d) disagrees", i)
		}
		nm, ok := sb.GetSequenceNameById(i)
		if !ok || nm != e.Name {
			return bad("byindex", "GetSequenceNameById(%d)=%q,%v want %q", i, nm, ok, e.Name)
		}
	}
	for _, i := range []int{-1, len(exp)} {
		if _, ok := sb.GetSequenceById(i); ok {
			return bad("byindex-range", "GetSequenceById(%d) succeeded", i)
		}
		if _, ok := sb.GetSequenceNameById(i); ok {
			return bad("byindex-range", "GetSequenceNameById(%d) succeeded", i)
		}
		if _, ok := sb.Sequence(i); ok {
			return bad("byindex-range", "Sequence(%d) succeeded", i)
		}
	}
	// by-name paths, for every name ever used
	names := make([]string, 0, len(m.ever)+1)
	for k := range m.ever {
		names = append(names, k)
	}
	names = append(names, "never-used-name")
	sort.Strings(names)
	for _, name := range names {
		var cands []string
		first := -1
		for i, r := range m.rows {
			if r.name == name {
				if first < 0 {
					first = i
				}
				cands = append(cands, r.seq)
			}
		}
		okSeq := func(q string) bool {
			for _, c := range cands {
				if c == q {
					return true
				}
			}
			return false
		}
		if first >= 0 {
			// "lookup by name, lookup by index and iteration always agree on the same rows": with names repeated by
			// the caller, every by-name accessor designates the row GetSequenceIdByName reports (the first one)
			cands = cands[:1]
		}
		str, ok := sb.GetSequence(name)
		if ok != (first >= 0) || (ok && !okSeq(str)) {
			return bad("byname", "GetSequence(%q)=%q,%v; model rows with that name: %q", name, str, ok, cands)
		}
		ch, ok := sb.GetSequenceChar(name)
		if ok != (first >= 0) || (ok && !okSeq(string(ch))) {
			return bad("byname", "GetSequenceChar(%q)=%q,%v; model: %q", name, ch, ok, cands)
		}
		q, ok := sb.GetSequenceByName(name)
		if ok != (first >= 0) || (ok && (q.Name() != name || !okSeq(q.Sequence()))) {
			return bad("byname", "GetSequenceByName(%q) ok=%v; model: %q", name, ok, cands)
		}
		q, ok = sb.SequenceByName(name)
		if ok != (first >= 0) || (ok && (q.Name() != name || !okSeq(q.Sequence()))) {
			return bad("byname", "SequenceByName(%q) ok=%v; model: %q", name, ok, cands)
		}
		if id := sb.GetSequenceIdByName(name); id != first {
			return bad("byname", "GetSequenceIdByName(%q)=%d want %d", name, id, first)
		}
	}
	if sb.Alphabet() != m.alpha {
		return bad("alphabet", "Alphabet()=%d model %d", sb.Alphabet(), m.alpha)
	}
	if s.al != nil {
		L := s.al.Length()
		if len(exp) > 0 && L != len(exp[0].Seq) {
			return bad("length", "Length()=%d, rows have %d residues", L, len(exp[0].Seq))
		}
		if len(exp) == 0 && L != -1 {
			// an alignment without rows has no length (the next sequence decides), whatever emptied it
			// (Clear, a cleaner removing every row, FilterLength since fix 175cbbc) or if it never held a row
			return bad("length", "an alignment without sequence reports Length()=%d instead of -1 (after %s)", L, op)
		}
	}
	if len(exp) > 0 {
		s.hadRows = true
	}
	return true
}

var ntResidues = "ACGTacgtNn-RYKM"
var aaResidues = "ARNDCQEGHILKMFPSTWYVXx-*ac"

func (s *state) residues() string {
	if s.m.alpha == align.AMINOACIDS {
		return aaResidues
	}
	return ntResidues
}

// freshName returns a name not carried by any row (mostly) or an existing one.
func (s *state) someName(existing bool) string {
	r := s.c.R
	if existing && len(s.m.rows) > 0 {
		return s.m.rows[r.Intn(len(s.m.rows))].name
	}
	for {
		n := r.PickStr(gen.HostileNames)
		if r.Chance(0.4) {
			n = "n" + gen.Itoa(r.Intn(50))
		}
		if s.m.has(n) < 0 {
			return n
		}
	}
}

func cleanName(n string) string {
	n = strings.Trim(n, " \t")
	var b strings.Builder
	in := false
	for i := 0; i < len(n); i++ {
		if strings.IndexByte("| \t,[]();.:", n[i]) >= 0 {
			if !in {
				b.WriteByte('-')
			}
			in = true
		} else {
			b.WriteByte(n[i])
			in = false
		}
	}
	return b.String()
}

type opFn func(s *state) (name string, cont bool)

func uniqueStrings(xs []string) bool {
	seen := map[string]bool{}
	for _, x := range xs {
		if seen[x] {
			return false
		}
		seen[x] = true
	}
	return true
}

func (s *state) setContainer(sb align.SeqBag) {
	s.sb = sb
	if al, ok := sb.(align.Alignment); ok {
		s.al = al
		s.m.isAlign = true
	} else {
		s.al = nil
		s.m.isAlign = false
	}
}

// ---- operations -------------------------------------------------------------

func opAdd(s *state) (string, bool) {
	r, m := s.c.R, s.m
	L := m.length()
	if L < 0 {
		L = r.Range(0, 6)
	}
	kind := r.Intn(6)
	name := s.someName(kind >= 2)
	seq := r.Str(L, s.residues())
	label := "Add:fresh"
	switch kind {
	case 2: // existing name, same residues
		if i := m.has(name); i >= 0 {
			seq = m.rows[i].seq
		}
		label = "Add:dup-same"
	case 3, 4:
		label = "Add:dup-diff"
	case 5: // wrong length
		if m.isAlign && len(m.rows) > 0 {
			wl := L + r.PickInt([]int{-1, 1, 2})
			if wl < 0 {
				wl = L + 1
			}
			seq = r.Str(wl, s.residues())
			label = "Add:wrong-length"
			name = s.someName(r.Bool())
		}
	}
	if len(m.rows) == 0 && s.staleLen {
		return "", true // empty alignment remembering a length: unspecified corner
	}
	before := m.snapshot()
	rejected := m.add(name, seq)
	var err error
	if r.Bool() {
		err = s.sb.AddSequence(name, seq, "")
	} else {
		err = s.sb.AddSequenceChar(name, []uint8(seq), "")
	}
	s.ops = append(s.ops, fmt.Sprintf("%s(%q,%q) policy=%d", label, name, seq, m.policy))
	if rejected {
		if err == nil {
			s.fail("Add:wrong-length-accepted", "a row of length %d was accepted by an alignment of length %d", len(seq), len(before[0].Seq))
			return label, false
		}
		if !h.EqRows(h.Snap(s.sb), before) {
			s.fail("Add:rejected-but-changed", "rejected insertion changed the alignment")
			return label, false
		}
		s.c.Count("rejected-insertions")
		return label, true
	}
	if err != nil {
		s.fail("Add:unexpected-error", "AddSequence(%q,%q): %v", name, seq, err)
		return label, false
	}
	return label, true
}

func randAlign(s *state, L int, shareNames float64) (align.Alignment, gen.Rows) {
	r := s.c.R
	n := r.Range(0, 4)
	var rows gen.Rows
	used := map[string]bool{}
	for i := 0; i < n; i++ {
		var name string
		if r.Chance(shareNames) && len(s.m.rows) > 0 {
			name = s.m.rows[r.Intn(len(s.m.rows))].name
		} else {
			name = "o" + gen.Itoa(r.Intn(30))
		}
		if used[name] {
			continue
		}
		used[name] = true
		rows = append(rows, gen.Seq{Name: name, Seq: r.Str(L, s.residues())})
	}
	a := align.NewAlign(s.m.alpha)
	for _, x := range rows {
		a.AddSequence(x.Name, x.Seq, "")
	}
	return a, rows
}

func opAppend(s *state) (string, bool) {
	if s.al == nil {
		return "", true
	}
	if len(s.m.rows) == 0 && s.staleLen {
		return "", true
	}
	r := s.c.R
	L := s.m.length()
	wrong := false
	if L < 0 {
		L = r.Range(1, 5)
	} else if r.Chance(0.2) {
		L += r.PickInt([]int{-1, 1})
		wrong = true
		if L < 0 {
			L = 1
		}
	}
	o, rows := randAlign(s, L, 0.4)
	before := s.m.snapshot()
	s.ops = append(s.ops, fmt.Sprintf("Append(%s)", h.Show(rows)))
	err := s.al.Append(o)
	if wrong && len(rows) > 0 && len(before) > 0 {
		// rows whose name is ignored by the duplicate policy never reach the length check
		allIgnored := true
		for _, x := range rows {
			i := s.m.has(x.Name)
			if !(i >= 0 && (s.m.policy == align.IGNORE_NAME || (s.m.policy == align.IGNORE_SEQUENCE && s.m.rows[i].seq == x.Seq))) {
				allIgnored = false
			}
		}
		if allIgnored {
			if err != nil {
				s.fail("Append:unexpected-error", "%v", err)
				return "Append", false
			}
			return "Append:all-ignored", true
		}
		if err == nil {
			s.fail("Append:wrong-length-accepted", "appended rows of length %d to an alignment of length %d", L, len(before[0].Seq))
			return "Append", false
		}
		if !h.EqRows(h.Snap(s.sb), before) {
			s.fail("Append:rejected-but-changed", "rejected append changed the alignment")
			return "Append", false
		}
		s.c.Count("rejected-insertions")
		return "Append:wrong-length", true
	}
	for _, x := range rows {
		s.m.add(x.Name, x.Seq)
	}
	if err != nil {
		s.fail("Append:unexpected-error", "%v", err)
		return "Append", false
	}
	return "Append", true
}

func opConcat(s *state) (string, bool) {
	if s.al == nil {
		return "", true
	}
	r, m := s.c.R, s.m
	if len(m.rows) == 0 && s.staleLen {
		return "", true // empty alignment remembering a length: unspecified corner
	}
	La := m.length()
	Lc := r.Range(1, 4)
	share := r.PickF([]float64{0, 0.5, 1})
	o, rows := randAlign(s, Lc, share)
	if share == 1 && len(m.rows) > 0 && r.Bool() { // identical name sets
		rows = nil
		o = align.NewAlign(m.alpha)
		for _, x := range m.rows {
			q := r.Str(Lc, s.residues())
			rows = append(rows, gen.Seq{Name: x.name, Seq: q})
			o.AddSequence(x.name, q, "")
		}
	}
	if len(m.rows) == 0 && r.Bool() { // both operands empty
		o, rows = align.NewAlign(m.alpha), nil
		s.c.Count("concat-both-empty")
	}
	s.ops = append(s.ops, fmt.Sprintf("Concat(%s)", h.Show(rows)))
	lenient := len(m.rows) == 0 || len(rows) == 0
	before := m.snapshot()
	var err error
	pan, msg, frame := mon.Protect(func() { err = s.al.Concat(o) })
	if pan {
		s.fail("Concat:panic:"+frame, "Concat panicked (empty operand=%v): %s", lenient, msg)
		return "Concat", false
	}
	// documented result
	if len(rows) > 0 {
		if La < 0 {
			La = 0
		}
		inC := map[string]string{}
		for _, x := range rows {
			inC[x.Name] = x.Seq
		}
		for i := range m.rows {
			if q, ok := inC[m.rows[i].name]; ok {
				m.rows[i].seq += q
			} else {
				m.rows[i].seq += strings.Repeat("-", Lc)
			}
		}
		for _, x := range rows {
			if m.has(x.Name) < 0 {
				m.rows = append(m.rows, mrow{x.Name, strings.Repeat("-", La) + x.Seq})
			}
		}
	}
	if lenient {
		s.c.Count("concat-empty-operand")
		if err != nil { // error is accepted for an empty operand, but then nothing may change
			if !h.EqRows(h.Snap(s.sb), before) {
				s.fail("Concat:error-but-changed", "Concat with an empty operand returned %v and changed the alignment", err)
				return "Concat", false
			}
			m.rows = nil
			for _, x := range before {
				m.rows = append(m.rows, mrow{x.Name, x.Seq})
			}
			return "Concat:empty", true
		}
		return "Concat:empty", true
	}
	if err != nil {
		s.fail("Concat:unexpected-error", "%v", err)
		return "Concat", false
	}
	return "Concat", true
}

func opRename(s *state) (string, bool) {
	r, m := s.c.R, s.m
	if len(m.rows) == 0 {
		return "", true
	}
	nm := map[string]string{}
	label := "Rename:partial"
	switch r.Intn(4) {
	case 0: // partial map to fresh names
		for _, x := range m.rows {
			if r.Bool() {
				nm[x.name] = x.name + "_r"
			}
		}
		nm["absent"] = "zz"
	case 1: // swap two names
		if len(m.rows) >= 2 {
			p := r.Perm(len(m.rows))
			a, b := m.rows[p[0]].name, m.rows[p[1]].name
			nm[a], nm[b] = b, a
			label = "Rename:swap"
		} else {
			nm[m.rows[0].name] = "solo"
		}
	case 2: // everything to fresh names
		for i, x := range m.rows {
			nm[x.name] = "R" + gen.Itoa(i)
		}
		label = "Rename:all"
	case 3: // map one name onto another existing name: caller-made duplicate
		if len(m.rows) >= 2 {
			p := r.Perm(len(m.rows))
			if m.rows[p[0]].name != m.rows[p[1]].name {
				nm[m.rows[p[0]].name] = m.rows[p[1]].name
				label = "Rename:to-existing"
			}
		}
	}
	if m.dupNames() { // make names unique again
		nm = map[string]string{}
		label = "Rename:undup"
	}
	s.ops = append(s.ops, fmt.Sprintf("%s(%v)", label, nm))
	if label == "Rename:undup" {
		// Rename maps by name: with duplicates both rows get the same new name, so use RenameRegexp-free route:
		// rename through the Sequence handles is not a SeqBag operation; instead map dup name to a fresh one (both rows) then stop the history.
		return "", false
	}
	s.sb.Rename(nm)
	for i := range m.rows {
		if v, ok := nm[m.rows[i].name]; ok {
			m.rows[i].name = v
		}
	}
	return label, true
}

func opRenameRegexp(s *state) (string, bool) {
	r, m := s.c.R, s.m
	pats := [][2]string{{"^", "P_"}, {"$", "_S"}, {"[0-9]+", "N"}, {"s", "S"}, {"(.)$", "${1}x"}, {"_", "."}, {"^(.)", "$1$1"}, {"(", ""}}
	p := pats[r.Intn(len(pats))]
	nm := map[string]string{}
	how := ""
	switch r.Intn(4) {
	case 0:
		// the caller's map already holds entries for the current names (left by an earlier call with another regex,
		// on another alignment, or anything else): the map is an OUTPUT of the call, the regex of THIS call applies
		for _, row := range m.rows {
			if r.Bool() {
				nm[row.name] = "stale_" + row.name
			}
		}
		how = " with a map already holding entries for some current names"
	case 1:
		if s.reMap != nil {
			nm = s.reMap
			how = " with the map of the previous RenameRegexp"
		}
	}
	s.reMap = nm
	s.ops = append(s.ops, fmt.Sprintf("RenameRegexp(%q,%q)%s", p[0], p[1], how))
	err := s.sb.RenameRegexp(p[0], p[1], nm)
	re, cerr := regexp.Compile(p[0])
	if cerr != nil {
		if err == nil {
			s.fail("RenameRegexp:bad-regex-accepted", "malformed regex accepted")
			return "RenameRegexp", false
		}
		return "RenameRegexp:bad-regex", true
	}
	if err != nil {
		s.fail("RenameRegexp:unexpected-error", "%v", err)
		return "RenameRegexp", false
	}
	for i := range m.rows {
		old := m.rows[i].name
		m.rows[i].name = re.ReplaceAllString(old, p[1])
		if got, ok := nm[old]; !ok || got != m.rows[i].name {
			if !m.dupNames() {
				s.fail("RenameRegexp:namemap", "namemap[%q]=%q,%v want %q", old, got, ok, m.rows[i].name)
				return "RenameRegexp", false
			}
		}
	}
	return "RenameRegexp", true
}

func opAppendId(s *state) (string, bool) {
	r, m := s.c.R, s.m
	id := r.PickStr([]string{"_x", "p|", "", "1"})
	right := r.Bool()
	s.ops = append(s.ops, fmt.Sprintf("AppendSeqIdentifier(%q,%v)", id, right))
	s.sb.AppendSeqIdentifier(id, right)
	for i := range m.rows {
		if right {
			m.rows[i].name += id
		} else {
			m.rows[i].name = id + m.rows[i].name
		}
	}
	return "AppendSeqIdentifier", true
}

func opCleanNames(s *state) (string, bool) {
	m := s.m
	nm := map[string]string{}
	if s.c.R.Chance(0.2) {
		nm = nil
	}
	s.ops = append(s.ops, "CleanNames")
	s.sb.CleanNames(nm)
	for i := range m.rows {
		old := m.rows[i].name
		m.rows[i].name = cleanName(old)
		if nm != nil {
			if got, ok := nm[old]; !ok || got != m.rows[i].name {
				if !m.dupNames() {
					s.fail("CleanNames:namemap", "namemap[%q]=%q,%v want %q", old, got, ok, m.rows[i].name)
					return "CleanNames", false
				}
			}
		}
	}
	return "CleanNames", true
}

func opTrimNames(s *state) (string, bool) {
	r, m := s.c.R, s.m
	if m.dupNames() {
		return "", true
	}
	auto := r.Bool()
	nm := map[string]string{}
	before := m.snapshot()
	var err error
	label := "TrimNames"
	size := r.PickInt([]int{2, 3, 4, 5, 10})
	shared := !auto && r.Chance(0.4)
	if shared {
		// the map already served another set of sequences (what `trim name` does over the alignments of one file):
		// relatives of the current names, sharing their prefixes
		other := align.NewSeqBag(align.UNKNOWN)
		for _, x := range before {
			other.AddSequence(x.Name+r.PickStr([]string{"q", "_b", "zz"}), "A", "")
		}
		if e := other.TrimNames(nm, size); e != nil {
			nm = map[string]string{}
			shared = false
		} else {
			s.c.Count("trimnames-shared-map")
		}
	}
	if auto {
		label = "TrimNamesAuto"
		cur := r.PickInt([]int{0, 1, 9, 99})
		how := ""
		if r.Chance(0.4) {
			// the map and the counter already served another set holding (some of) the same names: the successive
			// alignments of one file are renamed alike
			other := align.NewSeqBag(align.UNKNOWN)
			for _, x := range before {
				if r.Chance(0.7) {
					other.AddSequence(x.Name, "A", "")
				}
			}
			other.AddSequence("only-in-the-first-set", "A", "")
			if e := other.TrimNamesAuto(nm, &cur); e != nil {
				nm = map[string]string{}
			} else {
				how = " with the map and counter of a first set"
				s.c.Count("trimnamesauto-shared-map")
			}
		}
		s.ops = append(s.ops, fmt.Sprintf("TrimNamesAuto(cur=%d)%s", cur, how))
		err = s.sb.TrimNamesAuto(nm, &cur)
	} else {
		s.ops = append(s.ops, fmt.Sprintf("TrimNames(size=%d)", size))
		err = s.sb.TrimNames(nm, size)
	}
	if err != nil {
		// TrimNames may refuse (size too small / too many collisions); state after a failed
		// operation is outside the property: stop the history
		return label + ":error", false
	}
	got := h.Snap(s.sb)
	if len(got) != len(before) {
		s.fail(label+":rows", "row count changed")
		return label, false
	}
	names := got.Names()
	if !uniqueStrings(names) {
		s.fail(label+":not-unique", "trimmed names are not pairwise distinct: %q", names)
		return label, false
	}
	if shared {
		// short names are unique over everything the map has served ("previous short names are taken into account")
		seen := map[string]string{}
		for k, v := range nm {
			if o, dup := seen[v]; dup {
				s.fail(label+":shared-map-short-name-twice", "the shared name map gives the short name %q to both %q and %q", v, o, k)
				return label, false
			}
			seen[v] = k
		}
	}
	for i := range got {
		if got[i].Seq != before[i].Seq {
			s.fail(label+":residues", "row %d residues changed", i)
			return label, false
		}
		if v, ok := nm[before[i].Name]; !ok || v != got[i].Name {
			s.fail(label+":namemap", "namemap[%q]=%q,%v but row is now %q", before[i].Name, v, ok, got[i].Name)
			return label, false
		}
		if !auto {
			// "trims sequence names to n characters": never longer than n; exactly n when the
			// old name (':' and '_' dropped) fills the n-2 characters left of the two digit id
			base := strings.ReplaceAll(strings.ReplaceAll(before[i].Name, ":", ""), "_", "")
			if len(got[i].Name) > size || (len(base) >= size-2 && len(got[i].Name) != size) {
				s.fail(label+":size", "name %q (from %q) does not respect the requested size %d", got[i].Name, before[i].Name, size)
				return label, false
			}
		}
		m.rows[i].name = got[i].Name
	}
	return label, true
}

func opSort(s *state) (string, bool) {
	m := s.m
	s.ops = append(s.ops, "Sort")
	pan, msg, frame := mon.Protect(func() { s.sb.Sort() })
	if pan {
		s.fail("Sort:panic:"+frame, "%s", msg)
		return "Sort", false
	}
	if m.dupNames() {
		// any order among equal names
		sort.SliceStable(m.rows, func(i, j int) bool { return m.rows[i].name < m.rows[j].name })
		got := safeSnap(s.sb)
		if len(got) == len(m.rows) {
			a := append(gen.Rows(nil), got...)
			b := m.snapshot()
			less := func(r gen.Rows) func(i, j int) bool {
				return func(i, j int) bool {
					if r[i].Name != r[j].Name {
						return r[i].Name < r[j].Name
					}
					return r[i].Seq < r[j].Seq
				}
			}
			sort.SliceStable(a, less(a))
			sort.SliceStable(b, less(b))
			if h.EqRows(a, b) && sort.StringsAreSorted(got.Names()) {
				for i := range got {
					m.rows[i] = mrow{got[i].Name, got[i].Seq}
				}
			}
		}
		return "Sort:dup", true
	}
	sort.SliceStable(m.rows, func(i, j int) bool { return m.rows[i].name < m.rows[j].name })
	return "Sort", true
}

func opShuffle(s *state) (string, bool) {
	m := s.m
	s.ops = append(s.ops, "ShuffleSequences")
	s.sb.ShuffleSequences()
	got := h.Snap(s.sb)
	a := append(gen.Rows(nil), got...)
	b := m.snapshot()
	key := func(r gen.Rows) func(i, j int) bool {
		return func(i, j int) bool { return r[i].Name+"\x00"+r[i].Seq < r[j].Name+"\x00"+r[j].Seq }
	}
	sort.Slice(a, key(a))
	sort.Slice(b, key(b))
	if !h.EqRows(a, b) {
		s.fail("ShuffleSequences:not-permutation", "rows after shuffle are not a permutation")
		return "ShuffleSequences", false
	}
	for i := range got {
		m.rows[i] = mrow{got[i].Name, got[i].Seq}
	}
	return "ShuffleSequences", true
}

func opFilterLength(s *state) (string, bool) {
	r, m := s.c.R, s.m
	if m.dupNames() {
		return "", true
	}
	lens := []int{0, 1, 2, 3, 5, 8}
	min, max := -1, -1
	label := "FilterLength:"
	switch r.Intn(3) {
	case 0:
		min = r.PickInt(lens)
		label += "min"
	case 1:
		max = r.PickInt(lens)
		label += "max"
	case 2:
		min = r.PickInt(lens)
		max = min + r.Range(0, 4)
		label += "both"
	}
	s.ops = append(s.ops, fmt.Sprintf("FilterLength(%d,%d)", min, max))
	err := s.sb.FilterLength(min, max)
	if err != nil {
		s.fail("FilterLength:unexpected-error", "%v", err)
		return label, false
	}
	var keep []mrow
	for _, x := range m.rows {
		if (min < 0 || len(x.seq) >= min) && (max < 0 || len(x.seq) <= max) {
			keep = append(keep, x)
		}
	}
	m.rows = keep
	return label, true
}

func opDedup(s *state) (string, bool) {
	r, m := s.c.R, s.m
	if m.dupNames() {
		return "", true
	}
	nAsGap := r.Chance(0.3)
	for _, x := range m.rows {
		if strings.ContainsAny(x.seq, "nx") {
			nAsGap = false
		}
	}
	s.ops = append(s.ops, fmt.Sprintf("Deduplicate(%v)", nAsGap))
	groups, err := s.sb.Deduplicate(nAsGap)
	if err != nil {
		s.fail("Deduplicate:unexpected-error", "%v", err)
		return "Deduplicate", false
	}
	var keep []mrow
	seen := map[string]int{}
	var exp [][]string
	for _, x := range m.rows {
		k := x.seq
		if nAsGap {
			if m.alpha == align.AMINOACIDS {
				k = strings.ReplaceAll(k, "X", "-")
			} else if m.alpha == align.NUCLEOTIDS {
				k = strings.ReplaceAll(k, "N", "-")
			}
		}
		if g, ok := seen[k]; ok {
			exp[g] = append(exp[g], x.name)
		} else {
			seen[k] = len(exp)
			exp = append(exp, []string{x.name})
			keep = append(keep, x)
		}
	}
	m.rows = keep
	if fmt.Sprint(groups) != fmt.Sprint(exp) {
		s.fail("Deduplicate:groups", "groups=%v want %v", groups, exp)
		return "Deduplicate", false
	}
	return "Deduplicate", true
}

func opRemoveSeqs(s *state) (string, bool) {
	r, m := s.c.R, s.m
	if s.al == nil || m.dupNames() {
		return "", true
	}
	cutoff := r.PickF([]float64{0, 0.25, 0.5, 1})
	ch := byte('-')
	gapv := r.Bool()
	if !gapv {
		ch = r.Pick(s.residues())
	}
	var n int
	if gapv {
		s.ops = append(s.ops, fmt.Sprintf("RemoveGapSeqs(%v)", cutoff))
		n = s.al.RemoveGapSeqs(cutoff, false)
	} else {
		s.ops = append(s.ops, fmt.Sprintf("RemoveCharacterSeqs(%q,%v)", ch, cutoff))
		n = s.al.RemoveCharacterSeqs(ch, cutoff, false, false, false)
	}
	var keep []mrow
	for _, x := range m.rows {
		cnt := strings.Count(x.seq, string(ch))
		rm := (cutoff > 0 && float64(cnt) >= cutoff*float64(len(x.seq))) || (cutoff == 0 && cnt > 0)
		if !rm {
			keep = append(keep, x)
		}
	}
	if n != len(m.rows)-len(keep) {
		s.fail("RemoveSeqs:count", "returned %d removed rows, expected %d", n, len(m.rows)-len(keep))
		return "RemoveSeqs", false
	}
	m.rows = keep
	return "RemoveSeqs", true
}

func opRemoveGapSites(s *state) (string, bool) {
	r, m := s.c.R, s.m
	if s.al == nil || len(m.rows) == 0 {
		return "", true
	}
	cutoff := r.PickF([]float64{0, 0.5, 1})
	s.ops = append(s.ops, fmt.Sprintf("RemoveGapSites(%v,false)", cutoff))
	s.al.RemoveGapSites(cutoff, false)
	L := m.length()
	var keepCols []int
	for j := 0; j < L; j++ {
		cnt := 0
		for _, x := range m.rows {
			if x.seq[j] == '-' {
				cnt++
			}
		}
		rm := (cutoff > 0 && float64(cnt) >= cutoff*float64(len(m.rows))) || (cutoff == 0 && cnt > 0)
		if !rm {
			keepCols = append(keepCols, j)
		}
	}
	for i := range m.rows {
		b := make([]byte, len(keepCols))
		for k, j := range keepCols {
			b[k] = m.rows[i].seq[j]
		}
		m.rows[i].seq = string(b)
	}
	return "RemoveGapSites", true
}

// opCleanSites: the other site cleaners (chosen character / majority character, whole alignment or ends only). Which
// columns qualify is property C12's business; here the list model adopts the columns the operation reports as kept,
// and everything C01 is about is then observed as after any other step: rows == selection of the kept columns,
// names and order untouched, Length() == row length, index consistent.
func opCleanSites(s *state) (string, bool) {
	r, m := s.c.R, s.m
	if s.al == nil || len(m.rows) == 0 || m.length() == 0 {
		return "", true
	}
	cutoff := r.PickF([]float64{0, 0.25, 0.5, 0.75, 1})
	ends := r.Bool()
	var kept, rm []int
	label := "RemoveMajorityCharacterSites"
	if r.Bool() {
		s.ops = append(s.ops, fmt.Sprintf("RemoveMajorityCharacterSites(%v,%v,false,false)", cutoff, ends))
		_, _, kept, rm = s.al.RemoveMajorityCharacterSites(cutoff, ends, r.Bool(), r.Bool())
	} else {
		label = "RemoveCharacterSites"
		ch := []uint8{s.residues()[r.Intn(len(s.residues()))]}
		s.ops = append(s.ops, fmt.Sprintf("RemoveCharacterSites(%q,%v,%v,...)", ch, cutoff, ends))
		_, _, kept, rm = s.al.RemoveCharacterSites(ch, cutoff, ends, r.Bool(), r.Bool(), r.Bool(), false)
	}
	L := m.length()
	seen := make([]bool, L)
	for _, j := range append(append([]int{}, kept...), rm...) {
		if j < 0 || j >= L || seen[j] {
			s.fail(label+":kept-removed-not-a-partition", "kept=%v removed=%v do not partition the %d columns", kept, rm, L)
			return label, false
		}
		seen[j] = true
	}
	if len(kept)+len(rm) != L || !sort.IntsAreSorted(kept) {
		s.fail(label+":kept-removed-not-a-partition", "kept=%v removed=%v do not partition the %d columns in order", kept, rm, L)
		return label, false
	}
	for i := range m.rows {
		b := make([]byte, len(kept))
		for k, j := range kept {
			b[k] = m.rows[i].seq[j]
		}
		m.rows[i].seq = string(b)
	}
	return label, true
}

func opTrimSeqs(s *state) (string, bool) {
	r, m := s.c.R, s.m
	if s.al == nil || len(m.rows) == 0 {
		return "", true
	}
	L := m.length()
	k := r.PickInt([]int{-1, 0, 1, 2, L - 1, L, L + 1})
	from := r.Bool()
	s.ops = append(s.ops, fmt.Sprintf("TrimSequences(%d,%v)", k, from))
	before := m.snapshot()
	err := s.al.TrimSequences(k, from)
	if k < 0 || k >= L {
		if err == nil {
			s.fail("TrimSequences:out-of-range-accepted", "trim size %d accepted for length %d", k, L)
			return "TrimSequences", false
		}
		if !h.EqRows(h.Snap(s.sb), before) {
			s.fail("TrimSequences:rejected-but-changed", "rejected trim changed the alignment")
			return "TrimSequences", false
		}
		return "TrimSequences:rejected", true
	}
	if err != nil {
		s.fail("TrimSequences:unexpected-error", "%v", err)
		return "TrimSequences", false
	}
	for i := range m.rows {
		if from {
			m.rows[i].seq = m.rows[i].seq[k:]
		} else {
			m.rows[i].seq = m.rows[i].seq[:L-k]
		}
	}
	return "TrimSequences", true
}

func ntCompatible(rows []mrow) bool {
	for _, x := range rows {
		for i := 0; i < len(x.seq); i++ {
			if strings.IndexByte("ACGTURYSWKMBDHVNXO-.*?", upper(x.seq[i])) < 0 {
				return false
			}
		}
	}
	return true
}

func upper(c byte) byte {
	if c >= 'a' && c <= 'z' {
		return c - 32
	}
	return c
}

func opTranslate(s *state) (string, bool) {
	r, m := s.c.R, s.m
	if m.dupNames() {
		return "", true
	}
	phase := r.PickInt([]int{0, 0, 1, 2, -1})
	code := r.Intn(3)
	s.ops = append(s.ops, fmt.Sprintf("Translate(%d,%d)", phase, code))
	before := m.snapshot()
	err := s.sb.Translate(phase, code)
	if m.alpha != align.NUCLEOTIDS {
		if err == nil {
			s.fail("Translate:wrong-alphabet-accepted", "translated a non nucleotide container")
			return "Translate", false
		}
		if !h.EqRows(h.Snap(s.sb), before) {
			s.fail("Translate:rejected-but-changed", "rejected translation changed the container")
			return "Translate", false
		}
		return "Translate:rejected", true
	}
	var out []mrow
	ok := true
	if phase == -1 && s.al != nil && len(m.rows) > 0 && m.length() >= 5 && m.length()%3 != 2 && err == nil {
		// the three frames have different lengths: an alignment cannot hold them
		if msg := h.CheckRect(s.al); msg != "" {
			s.fail("Translate3:ragged-alignment", "Alignment.Translate(-1) on length %d returned nil and left a ragged alignment: %s", m.length(), msg)
		}
		return "Translate:three-frames", false
	}
	for _, x := range m.rows {
		phases := []int{phase}
		if phase == -1 {
			phases = []int{0, 1, 2}
		}
		for _, p := range phases {
			t, tok := ref.Translate(x.seq, p, code)
			if !tok {
				ok = false
			}
			n := x.name
			if phase == -1 {
				n = fmt.Sprintf("%s_%d", x.name, p)
			}
			out = append(out, mrow{n, t})
		}
	}
	if !ok {
		if err == nil {
			s.fail("Translate:too-short-accepted", "a sequence shorter than 3+phase was translated without error")
		}
		return "Translate:error", false // state after a failed operation is outside the property
	}
	if err != nil {
		s.fail("Translate:unexpected-error", "%v", err)
		return "Translate", false
	}
	// names generated by the three-frame mode may collide with existing ones; the duplicate policy then applies
	mm := &model{isAlign: m.isAlign, alpha: m.alpha, policy: m.policy}
	for _, x := range out {
		mm.add(x.name, x.seq)
	}
	m.rows = mm.rows
	// detected alphabet of the result
	got := s.sb.Alphabet()
	if len(m.rows) > 0 {
		if got == align.AMINOACIDS || (got == align.NUCLEOTIDS && ntCompatible(m.rows)) {
			m.alpha = got
		} else {
			s.fail("Translate:alphabet", "alphabet after translation is %d", got)
			return "Translate", false
		}
	} else {
		m.alpha = got
	}
	return "Translate", true
}

func opClone(s *state) (string, bool) {
	var c align.SeqBag
	var err error
	label := "CloneSeqBag"
	if s.al != nil && s.c.R.Bool() {
		label = "Clone"
		c, err = s.al.Clone()
	} else {
		c, err = s.sb.CloneSeqBag()
	}
	s.ops = append(s.ops, label)
	if s.m.dupNames() {
		return "", false
	}
	if err != nil {
		s.fail(label+":unexpected-error", "%v", err)
		return label, false
	}
	s.leaveBehind(label)
	s.setContainer(c)
	return label, true
}

func opSample(s *state) (string, bool) {
	r, m := s.c.R, s.m
	if s.al == nil || m.dupNames() {
		return "", true
	}
	n := len(m.rows)
	nb := r.PickInt([]int{0, 1, n - 1, n, n + 1})
	s.ops = append(s.ops, fmt.Sprintf("Sample(%d)", nb))
	before := m.snapshot()
	smp, err := s.al.Sample(nb)
	if nb < 1 || nb > n {
		if err == nil {
			s.fail("Sample:out-of-range-accepted", "Sample(%d) of %d rows succeeded", nb, n)
			return "Sample", false
		}
		return "Sample:rejected", true
	}
	if err != nil {
		s.fail("Sample:unexpected-error", "%v", err)
		return "Sample", false
	}
	got := h.Snap(smp)
	if len(got) != nb || !uniqueStrings(got.Names()) {
		s.fail("Sample:not-distinct", "Sample(%d) returned %s", nb, h.Show(got))
		return "Sample", false
	}
	var rows []mrow
	for _, g := range got {
		i := m.has(g.Name)
		if i < 0 || m.rows[i].seq != g.Seq {
			s.fail("Sample:not-original-row", "sampled row %q is not an original row", g.Name)
			return "Sample", false
		}
		rows = append(rows, mrow{g.Name, g.Seq})
	}
	m.rows = rows
	m.policy = align.IGNORE_NONE
	s.kept = append(s.kept, keptContainer{op: "Sample", sb: s.sb, rows: before, shape: true})
	s.setContainer(smp)
	return "Sample", true
}

func opClear(s *state) (string, bool) {
	s.ops = append(s.ops, "Clear")
	s.sb.Clear()
	s.m.rows = nil
	s.staleLen = false
	s.hadRows = false
	return "Clear", true
}

func opSetChar(s *state) (string, bool) {
	r, m := s.c.R, s.m
	if len(m.rows) == 0 || m.dupNames() {
		return "", true
	}
	i := r.Intn(len(m.rows))
	if len(m.rows[i].seq) == 0 {
		return "", true
	}
	j := r.Intn(len(m.rows[i].seq))
	ch := r.Pick(s.residues())
	var err error
	label := "SetSequenceChar"
	if s.al != nil && r.Bool() {
		label = "ReplaceChar"
		s.ops = append(s.ops, fmt.Sprintf("ReplaceChar(%q,%d,%q)", m.rows[i].name, j, ch))
		err = s.al.ReplaceChar(m.rows[i].name, j, ch)
	} else {
		s.ops = append(s.ops, fmt.Sprintf("SetSequenceChar(%d,%d,%q)", i, j, ch))
		err = s.sb.SetSequenceChar(i, j, ch)
	}
	if err != nil {
		s.fail(label+":unexpected-error", "%v", err)
		return label, false
	}
	b := []byte(m.rows[i].seq)
	b[j] = ch
	m.rows[i].seq = string(b)
	return label, true
}

func opReplace(s *state) (string, bool) {
	r, m := s.c.R, s.m
	old := string(r.Pick(s.residues()))
	nw := string(r.Pick(s.residues()))
	regex := r.Bool()
	if old == "*" || old == "-" {
		regex = false
	}
	s.ops = append(s.ops, fmt.Sprintf("Replace(%q,%q,%v)", old, nw, regex))
	if err := s.sb.Replace(old, nw, regex); err != nil {
		s.fail("Replace:unexpected-error", "%v", err)
		return "Replace", false
	}
	for i := range m.rows {
		m.rows[i].seq = strings.ReplaceAll(m.rows[i].seq, old, nw)
	}
	return "Replace", true
}

func opPolicy(s *state) (string, bool) {
	p := s.c.R.Intn(3)
	s.ops = append(s.ops, fmt.Sprintf("IgnoreIdentical(%d)", p))
	s.sb.IgnoreIdentical(p)
	s.m.policy = p
	return "IgnoreIdentical", true
}

func opCase(s *state) (string, bool) {
	up := s.c.R.Bool()
	for i := range s.m.rows {
		if up {
			s.m.rows[i].seq = strings.ToUpper(s.m.rows[i].seq)
		} else {
			s.m.rows[i].seq = strings.ToLower(s.m.rows[i].seq)
		}
	}
	if up {
		s.ops = append(s.ops, "ToUpper")
		s.sb.ToUpper()
		return "ToUpper", true
	}
	s.ops = append(s.ops, "ToLower")
	s.sb.ToLower()
	return "ToLower", true
}

func opUnalign(s *state) (string, bool) {
	if s.m.dupNames() {
		return "", true
	}
	s.ops = append(s.ops, "Unalign")
	before := s.m.snapshot()
	u := s.sb.Unalign()
	for i := range s.m.rows {
		s.m.rows[i].seq = strings.ReplaceAll(s.m.rows[i].seq, "-", "")
	}
	s.m.policy = align.IGNORE_NONE
	s.leaveBehind("Unalign")
	for i := range s.kept[len(s.kept)-1].rows { // the rows left behind keep their gaps
		s.kept[len(s.kept)-1].rows[i].Seq = before[i].Seq
	}
	s.setContainer(u)
	return "Unalign", true
}

func opSubAlign(s *state) (string, bool) {
	r, m := s.c.R, s.m
	if s.al == nil || len(m.rows) == 0 || m.dupNames() {
		return "", true
	}
	L := m.length()
	st := r.Range(0, L)
	ln := r.Range(0, L-st)
	s.ops = append(s.ops, fmt.Sprintf("SubAlign(%d,%d)", st, ln))
	sub, err := s.al.SubAlign(st, ln)
	if err != nil {
		s.fail("SubAlign:unexpected-error", "%v", err)
		return "SubAlign", false
	}
	s.leaveBehind("SubAlign")
	for i := range m.rows {
		m.rows[i].seq = m.rows[i].seq[st : st+ln]
	}
	m.policy = align.IGNORE_NONE
	s.setContainer(sub)
	return "SubAlign", true
}

var allOps = []opFn{opAdd, opAdd, opAppend, opConcat, opCleanSites, opRename, opRename, opRenameRegexp, opAppendId, opCleanNames, opTrimNames, opSort, opSort, opShuffle,
	opFilterLength, opDedup, opRemoveSeqs, opRemoveGapSites, opTrimSeqs, opTranslate, opClone, opSample, opClear, opSetChar, opReplace, opPolicy, opCase, opUnalign, opSubAlign}

var mutating = map[string]bool{}

func runHistory(c *mon.Case, forced []opFn) {
	r := c.R
	m := &model{ever: map[string]bool{}}
	m.isAlign = r.Chance(0.75)
	m.alpha = align.NUCLEOTIDS
	if r.Chance(0.3) {
		m.alpha = align.AMINOACIDS
	}
	m.policy = r.Intn(3)
	s := &state{c: c, m: m}
	if m.isAlign {
		a := align.NewAlign(m.alpha)
		a.IgnoreIdentical(m.policy)
		s.sb, s.al = a, a
	} else {
		b := align.NewSeqBag(m.alpha)
		b.IgnoreIdentical(m.policy)
		s.sb = b
	}
	// initial content (through AddSequence, so duplicate-name inputs exercise the policies)
	n := r.PickInt([]int{0, 1, 1, 2, 3, 4, 6, 9, 12})
	L := r.PickInt([]int{0, 1, 1, 2, 3, 4, 6, 9, 12})
	names := gen.UniqueNames(r, n, true)
	c.Count(fmt.Sprintf("start:policy%d", m.policy))
	if n == 0 {
		c.Count("start:empty")
	}
	s.ops = append(s.ops, fmt.Sprintf("start align=%v alpha=%d policy=%d", m.isAlign, m.alpha, m.policy))
	for i := 0; i < n; i++ {
		name := names[i]
		if i > 0 && r.Chance(0.2) {
			name = names[r.Intn(i)]
			c.Count("start:duplicate-name-input")
		}
		l := L
		if !m.isAlign {
			l = r.Range(0, L+2)
		}
		seq := r.Str(l, s.residues())
		if i > 0 && r.Chance(0.2) {
			seq = m.rows[r.Intn(len(m.rows))].seq
		}
		if m.isAlign && len(seq) != L {
			seq = r.Str(L, s.residues())
		}
		m.add(name, seq)
		s.sb.AddSequence(name, seq, "")
		s.ops = append(s.ops, fmt.Sprintf("init Add(%q,%q)", name, seq))
	}
	m.note()
	if !s.observe("init") {
		return
	}
	nops := r.Range(2, 12)
	changing, queriesAfter := 0, 0
	prev := ""
	var hist []string
	for k := 0; k < nops || k < len(forced); k++ {
		var op opFn
		if k < len(forced) {
			op = forced[k]
		} else {
			op = allOps[r.Intn(len(allOps))]
		}
		if m.dupNames() && k >= len(forced) {
			// caller-made duplicate names: only observe, then stop (what the other operations do with them is unspecified)
			break
		}
		name, cont := op(s)
		if name == "" {
			if !cont {
				break
			}
			continue
		}
		c.Count("op:" + name)
		if prev != "" {
			c.Count("pair:" + strings.SplitN(prev, ":", 2)[0] + ">" + strings.SplitN(name, ":", 2)[0])
		}
		prev = name
		hist = append(hist, name)
		if c.Failed() || !cont {
			break
		}
		m.note()
		changing++
		if !s.observe(strings.SplitN(name, ":", 2)[0]) {
			break
		}
		queriesAfter++
	}
	if !c.Failed() {
		s.checkKept()
	}
	c.Input(map[string]interface{}{"ops": s.ops})
	c.Note("final rows: %s", h.Show(m.snapshot()))
	if changing >= 2 && queriesAfter >= 1 {
		c.NonTrivial(strings.Join(s.ops, "|"))
	}
}

// witness cases: fixed inputs of every defect this monitor found on the pinned tree
// (repaired ones stay as regression witnesses; recorded ones print their KNOWN-FINDING line every run)
func runWitness(c *mon.Case) {
	mk := func(rows ...string) align.Alignment {
		a := align.NewAlign(align.NUCLEOTIDS)
		for i := 0; i+1 < len(rows); i += 2 {
			a.AddSequence(rows[i], rows[i+1], "")
		}
		return a
	}
	c.Input(map[string]interface{}{"witness": c.Idx})
	switch c.Idx {
	case 0:
		a := mk("s0", "ACGTACGTACGA", "s1", "ACGTACGTACGC")
		if err := a.Translate(-1, 0); err == nil {
			if msg := h.CheckRect(a); msg != "" {
				c.Failf("Translate3:ragged-alignment", "Alignment.Translate(-1) on length 12 returned nil and left a ragged alignment: %s", msg)
			}
		}
	case 1:
		for _, op := range []string{"Rename", "RenameRegexp", "AppendSeqIdentifier", "CleanNames", "TrimNamesAuto"} {
			a := mk("s 0", "ACGT", "s 1", "AGGT")
			nm := map[string]string{}
			cur := 1
			switch op {
			case "Rename":
				a.Rename(map[string]string{"s 0": "zz"})
			case "RenameRegexp":
				a.RenameRegexp("s", "t", nm)
			case "AppendSeqIdentifier":
				a.AppendSeqIdentifier("x", true)
			case "CleanNames":
				a.CleanNames(nm)
			case "TrimNamesAuto":
				a.TrimNamesAuto(nm, &cur)
			}
			n0, _ := a.GetSequenceNameById(0)
			if _, ok := a.GetSequence(n0); !ok {
				c.Failf(op+":byname", "after %s row 0 is named %q but GetSequence(%q) fails", op, n0, n0)
			}
			if _, ok := a.GetSequence("s 0"); ok && n0 != "s 0" {
				c.Failf(op+":byname", "after %s GetSequence still answers for the old name", op)
			}
			if p := h.Invariants(a); len(p) > 0 {
				c.Failf(op+":invariant-hook", "%v", p)
			}
			pan, msg, _ := mon.Protect(func() { a.Sort(); h.Snap(a) })
			if pan {
				c.Failf("Sort:panic", "%s then Sort: %s", op, msg)
			}
		}
	case 2:
		b := align.NewSeqBag(align.NUCLEOTIDS)
		b.AddSequence("a", "A", "")
		b.AddSequence("b", "ACGTA", "")
		b.AddSequence("c", "ACGTACGTAC", "")
		b.FilterLength(3, 7)
		if got := h.Snap(b); len(got) != 1 || got[0].Name != "b" {
			c.Failf("FilterLength:nbseq", "FilterLength(3,7) of lengths 1,5,10 kept %s", h.Show(got))
		}
	case 3:
		a := align.NewAlign(align.NUCLEOTIDS)
		pan, msg, fr := mon.Protect(func() { a.Concat(mk("x", "ACGT")) })
		if pan {
			c.Failf("Concat:panic:"+fr, "%s", msg)
		}
		a2 := mk("x", "ACGT")
		pan, msg, fr = mon.Protect(func() { a2.Concat(align.NewAlign(align.NUCLEOTIDS)) })
		if pan {
			c.Failf("Concat:panic:"+fr, "%s", msg)
		}
	case 4:
		b := align.NewSeqBag(align.NUCLEOTIDS)
		b.AddSequence("S01_0001", "ACG", "")
		b.AddSequence("S01", "AC", "")
		b.TrimNames(map[string]string{}, 3)
		if p := h.Invariants(b); len(p) > 0 {
			c.Failf("TrimNames:invariant-hook", "%v", p)
		}
	case 5:
		a := mk("b", "AAAA", "a", "CCCC", "c", "GGGG")
		a.Rename(map[string]string{"c": "a"})
		pan, msg, _ := mon.Protect(func() { a.Sort() })
		got := safeSnap(a)
		if pan || len(got) != 3 || got[0].Name != "a" || got[1].Name != "a" || got[2].Name != "b" || got[0].Seq == got[1].Seq {
			c.Failf("Sort:dup-names", "Sort with two rows named a gave %s %s", h.Show(got), msg)
		}
	case 7:
		// a TrimNames call that fails half-way (more than 100 identical short names) has renamed the first rows:
		// whatever the names are by then, lookups by name, by index and iteration still agree
		for _, aligned := range []bool{true, false} {
			var sb align.SeqBag = align.NewSeqBag(align.NUCLEOTIDS)
			if aligned {
				sb = align.NewAlign(align.NUCLEOTIDS)
			}
			for i := 0; i < 130; i++ {
				sb.AddSequence(fmt.Sprintf("sample_%03d", i), "ACGT", "")
			}
			err := sb.TrimNames(map[string]string{}, 8)
			if p := h.Invariants(sb); len(p) > 0 {
				c.Failf("TrimNames:invariant-hook-after-refusal", "TrimNames(size 8) on 130 names sample_NNN returned %v and left: %v", err, p)
				break
			}
			for i := 0; i < sb.NbSequences(); i++ {
				n, _ := sb.GetSequenceNameById(i)
				if id := sb.GetSequenceIdByName(n); id < 0 {
					c.Failf("TrimNames:byname-after-refusal", "after the refused TrimNames (%v) row %d is named %q, a name GetSequenceIdByName does not know", err, i, n)
					break
				}
				if _, ok := sb.GetSequence(n); !ok {
					c.Failf("TrimNames:byname-after-refusal", "after the refused TrimNames (%v) row %d is named %q, a name GetSequence does not know", err, i, n)
					break
				}
			}
		}
	case 6:
		a := mk("x", "ACGTA", "y", "ACGTC")
		a.FilterLength(10, -1)
		if a.NbSequences() != 0 || a.Length() != -1 {
			c.Failf("FilterLength:length", "FilterLength(10,-1) of two rows of 5: %d rows, Length()=%d (an alignment without sequence has no length)", a.NbSequences(), a.Length())
		}
		if err := a.AddSequence("z", "ACG", ""); err != nil {
			c.Failf("FilterLength:length", "alignment emptied by FilterLength refuses a sequence of another length: %v", err)
		}
	}
	c.NonTrivial("witness", gen.Itoa(c.Idx))
}

func main() {
	mon.SetNote("rule", "case = random initial container (alignment or sequence set, nt/aa, 0..12 rows x 0..12 columns, hostile and duplicate names, each duplicate policy) followed by 2..12 operations drawn from 27 public operations; after every operation every access path (NbSequences, Length, Iterate*, Sequences, by-index and by-name lookups for every name ever used, Alphabet, VerifInvariants hook) is compared with the list-of-rows model. Non-trivial = at least 2 state-changing operations each followed by a full observation; distinct = distinct operation/argument strings.")
	mon.SetNote("assumptions", "reference model encodes the documented meaning of each operation (interface comments, docs/api);; state after a failed operation (other than a rejected insertion/trim) is outside the property: the history stops there;; histories stop once the caller has created duplicate names (only the observation after the renaming step is checked);; an empty alignment that still remembers a length (FilterLength/Deduplicate down to zero rows) is an unspecified corner: insertions into it are not generated")
	for _, op := range []string{"Add:fresh", "Add:dup-same", "Add:dup-diff", "Add:wrong-length", "Append", "Concat", "Rename:partial", "Rename:swap", "Rename:all", "Rename:to-existing", "RenameRegexp", "AppendSeqIdentifier",
		"CleanNames", "TrimNames", "TrimNamesAuto", "Sort", "ShuffleSequences", "FilterLength:min", "FilterLength:max", "FilterLength:both", "Deduplicate", "RemoveSeqs", "RemoveGapSites", "RemoveMajorityCharacterSites", "RemoveCharacterSites", "TrimSequences", "Translate",
		"Clone", "CloneSeqBag", "Sample", "Clear", "SetSequenceChar", "ReplaceChar", "Replace", "IgnoreIdentical", "Unalign", "SubAlign"} {
		mon.Floor("op:"+op, 20)
	}
	mon.Floor("start:empty", 20)
	mon.Floor("concat-both-empty", 20)
	mon.Floor("trimnames-shared-map", 50)
	mon.Floor("start:policy0", 50)
	mon.Floor("start:policy1", 50)
	mon.Floor("start:policy2", 50)
	mon.Floor("rejected-insertions", 20)
	mon.Floor("concurrent:calls", 500)
	mon.Main("C01", []mon.Sub{
		{Name: "witness", Quick: 8, Thorough: 8, Run: runWitness},
		{Name: "history", Quick: 40000, Thorough: 2000000, Run: func(c *mon.Case) { runHistory(c, nil) }},
		// every renamer / re-orderer followed by by-name queries and Sort: the stale-index family
		{Name: "rename-then-sort", Quick: 6000, Thorough: 200000, Run: func(c *mon.Case) {
			ren := []opFn{opRename, opRenameRegexp, opAppendId, opCleanNames, opTrimNames}
			runHistory(c, []opFn{ren[c.R.Intn(len(ren))], opSort, opSetChar})
		}},
		{Name: "copy-then-edit", Quick: 6000, Thorough: 200000, Run: func(c *mon.Case) {
			cp := []opFn{opClone, opClone, opSubAlign, opUnalign}
			ed := []opFn{opSetChar, opCase, opReplace, opSetChar}
			runHistory(c, []opFn{cp[c.R.Intn(len(cp))], ed[c.R.Intn(len(ed))], ed[c.R.Intn(len(ed))]})
		}},
		{Name: "filter-concat", Quick: 6000, Thorough: 200000, Run: func(c *mon.Case) {
			f := []opFn{opFilterLength, opConcat, opAppend, opAdd, opTrimSeqs, opTranslate}
			runHistory(c, []opFn{f[c.R.Intn(len(f))], f[c.R.Intn(len(f))]})
		}},
		{Name: "concurrent", Quick: 64, Thorough: 1200, Race: true, Run: func(c *mon.Case) { conc.Run(c, "container") }},
	})
}
