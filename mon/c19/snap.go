// Observation side of the C19 monitor: deep snapshots taken through the public
// accessors, detectors of shared storage between two objects, and the pool of
// in-place mutations applied to copies and originals.
package main

import (
	"fmt"
	"math/rand"
	"strings"

	"github.com/evolbioinfo/goalign/align"

	"verif/lib/gen"
	"verif/lib/h"
	"verif/lib/mon"
)

// ---------------------------------------------------------------- snapshots

type rowS struct{ Name, Seq, Comment string }

// snap is a deep copy of everything the accessors show of a container. Every
// residue string is a fresh string (no byte of the container is retained).
type snap struct {
	IsAlign  bool
	N        int
	Len      int // Length() of an alignment, -2 for a sequence set
	Alpha    int
	AlphaStr string
	AlphaChr string
	MaxName  int
	Rows     []rowS   // IterateAll: name, residues, comment
	Str      []rowS   // Iterate (string view) + Sequence(i).Comment()
	ByID     []rowS   // GetSequenceNameById / GetSequenceCharById / Sequence(i)
	ByName   []string // GetSequence(name) of every row name, in row order
}

func takeSnap(sb align.SeqBag) *snap {
	s := &snap{N: sb.NbSequences(), Len: -2, Alpha: sb.Alphabet(), AlphaStr: sb.AlphabetStr(), AlphaChr: string(sb.AlphabetCharacters()), MaxName: sb.MaxNameLength()}
	if a, ok := sb.(align.Alignment); ok {
		s.IsAlign = true
		s.Len = a.Length()
	}
	sb.IterateAll(func(name string, seq []uint8, comment string) bool {
		s.Rows = append(s.Rows, rowS{strings.Clone(name), string(seq), strings.Clone(comment)})
		return false
	})
	sb.Iterate(func(name, seq string) bool {
		s.Str = append(s.Str, rowS{Name: strings.Clone(name), Seq: strings.Clone(seq)})
		return false
	})
	for i := 0; i < s.N; i++ {
		var r rowS
		if n, ok := sb.GetSequenceNameById(i); ok {
			r.Name = strings.Clone(n)
		} else {
			r.Name = "\x00missing"
		}
		if b, ok := sb.GetSequenceCharById(i); ok {
			r.Seq = string(b)
		} else {
			r.Seq = "\x00missing"
		}
		if q, ok := sb.Sequence(i); ok && q != nil {
			r.Comment = strings.Clone(q.Comment())
			if q.Length() != len(r.Seq) || q.Name() != r.Name {
				r.Comment += fmt.Sprintf("\x00Sequence(%d) says name %q length %d", i, q.Name(), q.Length())
			}
		} else {
			r.Comment = "\x00missing"
		}
		s.ByID = append(s.ByID, r)
	}
	for _, r := range s.Rows {
		if q, ok := sb.GetSequence(r.Name); ok {
			s.ByName = append(s.ByName, strings.Clone(q))
		} else {
			s.ByName = append(s.ByName, "\x00missing")
		}
	}
	return s
}

func diffRows(what string, a, b []rowS, comments bool) string {
	if len(a) != len(b) {
		return fmt.Sprintf("%s: %d rows before, %d after", what, len(a), len(b))
	}
	for i := range a {
		if a[i].Name != b[i].Name {
			return fmt.Sprintf("%s: row %d name %q became %q", what, i, a[i].Name, b[i].Name)
		}
		if a[i].Seq != b[i].Seq {
			j := 0
			for j < len(a[i].Seq) && j < len(b[i].Seq) && a[i].Seq[j] == b[i].Seq[j] {
				j++
			}
			return fmt.Sprintf("%s: row %d (%q) residues %q became %q (first difference at site %d)", what, i, a[i].Name, clip(a[i].Seq), clip(b[i].Seq), j)
		}
		if comments && a[i].Comment != b[i].Comment {
			return fmt.Sprintf("%s: row %d (%q) comment %q became %q", what, i, a[i].Name, a[i].Comment, b[i].Comment)
		}
	}
	return ""
}

func clip(s string) string {
	if len(s) > 160 {
		return s[:160] + "…"
	}
	return s
}

// diff returns "" when t shows exactly what s showed.
func (s *snap) diff(t *snap) string {
	if s.N != t.N {
		return fmt.Sprintf("NbSequences %d became %d", s.N, t.N)
	}
	if s.Len != t.Len {
		return fmt.Sprintf("Length %d became %d", s.Len, t.Len)
	}
	if s.Alpha != t.Alpha || s.AlphaStr != t.AlphaStr {
		return fmt.Sprintf("alphabet %d (%s) became %d (%s)", s.Alpha, s.AlphaStr, t.Alpha, t.AlphaStr)
	}
	if s.AlphaChr != t.AlphaChr {
		return fmt.Sprintf("AlphabetCharacters %q became %q", s.AlphaChr, t.AlphaChr)
	}
	if d := diffRows("IterateAll", s.Rows, t.Rows, true); d != "" {
		return d
	}
	if d := diffRows("Iterate", s.Str, t.Str, false); d != "" {
		return d
	}
	if d := diffRows("by-index accessors", s.ByID, t.ByID, true); d != "" {
		return d
	}
	if s.MaxName != t.MaxName {
		return fmt.Sprintf("MaxNameLength %d became %d", s.MaxName, t.MaxName)
	}
	for i := range s.ByName {
		if i < len(t.ByName) && s.ByName[i] != t.ByName[i] {
			return fmt.Sprintf("GetSequence(%q) %q became %q", s.Rows[i].Name, clip(s.ByName[i]), clip(t.ByName[i]))
		}
	}
	return ""
}

func (s *snap) rows() gen.Rows {
	out := make(gen.Rows, len(s.Rows))
	for i, r := range s.Rows {
		out[i] = gen.Seq{Name: r.Name, Seq: r.Seq}
	}
	return out
}

func (s *snap) show() string {
	return strings.Map(func(r rune) rune {
		if r < 32 || r > 126 {
			return '#'
		}
		return r
	}, h.Show(s.rows()))
}

// seqS is the snapshot of one Sequence object.
type seqS struct {
	Name, Seq, Chars, Comment string
	Len                       int
}

func takeSeq(q align.Sequence) seqS {
	return seqS{strings.Clone(q.Name()), strings.Clone(q.Sequence()), string(q.SequenceChar()), strings.Clone(q.Comment()), q.Length()}
}

func (s seqS) diff(t seqS) string {
	switch {
	case s.Name != t.Name:
		return fmt.Sprintf("name %q became %q", s.Name, t.Name)
	case s.Seq != t.Seq || s.Chars != t.Chars:
		return fmt.Sprintf("residues %q became %q", clip(s.Seq), clip(t.Chars))
	case s.Comment != t.Comment:
		return fmt.Sprintf("comment %q became %q", s.Comment, t.Comment)
	case s.Len != t.Len:
		return fmt.Sprintf("length %d became %d", s.Len, t.Len)
	}
	return ""
}

// ---------------------------------------------------------------- watchers

// watcher remembers the last snapshot of an object that a call must not change.
type watcher struct {
	label string
	sb    align.SeqBag
	seq   align.Sequence
	last  *snap
	lastQ seqS
	hook  bool // VerifInvariants was clean at the last snapshot
}

func watch(label string, sb align.SeqBag) *watcher {
	w := &watcher{label: label, sb: sb, last: takeSnap(sb)}
	w.hook = len(h.Invariants(sb)) == 0
	return w
}

func watchSeq(label string, q align.Sequence) *watcher {
	return &watcher{label: label, seq: q, lastQ: takeSeq(q)}
}

// recheck compares with the last snapshot, then moves the reference forward.
func (w *watcher) recheck() string {
	if w.seq != nil {
		now := takeSeq(w.seq)
		d := w.lastQ.diff(now)
		w.lastQ = now
		if d != "" {
			return w.label + ": " + d
		}
		return ""
	}
	now := takeSnap(w.sb)
	d := w.last.diff(now)
	before := w.last
	w.last = now
	if d != "" {
		return fmt.Sprintf("%s: %s\n  before %s\n  after  %s", w.label, d, before.show(), now.show())
	}
	if w.hook {
		if p := h.Invariants(w.sb); len(p) > 0 {
			w.hook = false
			return w.label + ": internal row list / name index / length no longer consistent: " + strings.Join(p, "; ")
		}
	}
	return ""
}

// resync accepts the current state as the new reference (after a deliberate mutation).
func (w *watcher) resync() {
	if w.seq != nil {
		w.lastQ = takeSeq(w.seq)
		return
	}
	w.last = takeSnap(w.sb)
	w.hook = len(h.Invariants(w.sb)) == 0
}

// plain values passed as arguments
func cpInts(a []int) []int {
	if a == nil {
		return nil
	}
	return append([]int{}, a...)
}
func eqInts(a, b []int) bool {
	if (a == nil) != (b == nil) || len(a) != len(b) {
		return false
	}
	for i := range a {
		if a[i] != b[i] {
			return false
		}
	}
	return true
}
func cpFloats(a []float64) []float64 {
	if a == nil {
		return nil
	}
	return append([]float64{}, a...)
}
func eqFloats(a, b []float64) bool {
	if (a == nil) != (b == nil) || len(a) != len(b) {
		return false
	}
	for i := range a {
		if a[i] != b[i] {
			return false
		}
	}
	return true
}

// ---------------------------------------------------------------- shared storage

// store indexes every byte cell (over the full capacity of each row buffer) and
// every row object of a container.
type store struct {
	cells map[*uint8]int
	objs  map[align.Sequence]int
}

func storeOf(sb align.SeqBag) *store {
	st := &store{cells: map[*uint8]int{}, objs: map[align.Sequence]int{}}
	i := 0
	sb.IterateChar(func(name string, seq []uint8) bool {
		full := seq[:cap(seq)]
		for k := range full {
			st.cells[&full[k]] = i
		}
		i++
		return false
	})
	for j, q := range sb.Sequences() {
		st.objs[q] = j
	}
	return st
}

func (st *store) addSeq(q align.Sequence, id int) {
	b := q.SequenceChar()
	full := b[:cap(b)]
	for k := range full {
		st.cells[&full[k]] = id
	}
	st.objs[q] = id
}

func storeOfSeq(q align.Sequence) *store {
	st := &store{cells: map[*uint8]int{}, objs: map[align.Sequence]int{}}
	st.addSeq(q, 0)
	return st
}

// sharesBuf tells whether buf (over its capacity) uses a cell of the store.
func (st *store) sharesBuf(buf []uint8) (int, bool) {
	full := buf[:cap(buf)]
	for k := range full {
		if r, ok := st.cells[&full[k]]; ok {
			return r, true
		}
	}
	return 0, false
}

// shared describes the first storage x has in common with the store ("" = nothing).
func (st *store) shared(x align.SeqBag) string {
	msg := ""
	i := 0
	x.IterateChar(func(name string, seq []uint8) bool {
		if r, ok := st.sharesBuf(seq); ok {
			msg = fmt.Sprintf("row %d (%q) of the result uses the byte buffer of row %d of the original", i, name, r)
			return true
		}
		i++
		return false
	})
	if msg != "" {
		return msg
	}
	for j, q := range x.Sequences() {
		if r, ok := st.objs[q]; ok {
			return fmt.Sprintf("row %d of the result is the same Sequence object as row %d of the original", j, r)
		}
		// what the name index of the result hands out
		if b, ok := x.GetSequenceChar(q.Name()); ok {
			if r, sh := st.sharesBuf(b); sh {
				return fmt.Sprintf("GetSequenceChar(%q) of the result hands out the byte buffer of row %d of the original", q.Name(), r)
			}
		}
		if o, ok := x.GetSequenceByName(q.Name()); ok {
			if r, sh := st.objs[o]; sh {
				return fmt.Sprintf("GetSequenceByName(%q) of the result hands out row %d of the original", q.Name(), r)
			}
		}
	}
	return ""
}

func (st *store) sharedSeq(q align.Sequence) string {
	if q == nil {
		return ""
	}
	if r, ok := st.sharesBuf(q.SequenceChar()); ok {
		return fmt.Sprintf("the returned sequence %q uses the byte buffer of row %d of the input", q.Name(), r)
	}
	if r, ok := st.objs[q]; ok {
		return fmt.Sprintf("the returned sequence is the same Sequence object as row %d of the input", r)
	}
	return ""
}

// ---------------------------------------------------------------- in-place mutations

func otherChar(r *gen.Rand, cur uint8, alpha int) uint8 {
	pool := "ACGT"
	if alpha == align.AMINOACIDS {
		pool = "ARNDCQEGHILKMFPSTWYV"
	}
	for {
		c := pool[r.Intn(len(pool))]
		if c != cur && c != cur-32 && c+32 != cur {
			return c
		}
	}
}

type mutator struct {
	name string
	// f mutates x in place; it reports false when it could not do anything on this object
	f func(r *gen.Rand, x align.SeqBag) bool
}

func pickCell(r *gen.Rand, x align.SeqBag) (int, int, uint8, bool) {
	n := x.NbSequences()
	if n == 0 {
		return 0, 0, 0, false
	}
	i := r.Intn(n)
	b, ok := x.GetSequenceCharById(i)
	if !ok || len(b) == 0 {
		return 0, 0, 0, false
	}
	j := r.PickInt([]int{0, len(b) - 1, r.Intn(len(b)), r.Intn(len(b))})
	return i, j, b[j], true
}

var mutators = []mutator{
	{"SetSequenceChar", func(r *gen.Rand, x align.SeqBag) bool {
		i, j, cur, ok := pickCell(r, x)
		if !ok {
			return false
		}
		return x.SetSequenceChar(i, j, otherChar(r, cur, x.Alphabet())) == nil
	}},
	{"ReplaceChar", func(r *gen.Rand, x align.SeqBag) bool {
		a, isal := x.(align.Alignment)
		i, j, cur, ok := pickCell(r, x)
		if !ok || !isal {
			return false
		}
		name, _ := x.GetSequenceNameById(i)
		return a.ReplaceChar(name, j, otherChar(r, cur, x.Alphabet())) == nil
	}},
	{"write:GetSequenceCharById", func(r *gen.Rand, x align.SeqBag) bool {
		i, j, cur, ok := pickCell(r, x)
		if !ok {
			return false
		}
		b, _ := x.GetSequenceCharById(i)
		b[j] = otherChar(r, cur, x.Alphabet())
		return true
	}},
	{"write:GetSequenceChar", func(r *gen.Rand, x align.SeqBag) bool {
		i, j, cur, ok := pickCell(r, x)
		if !ok {
			return false
		}
		name, _ := x.GetSequenceNameById(i)
		b, ok := x.GetSequenceChar(name)
		if !ok || j >= len(b) {
			return false
		}
		b[j] = otherChar(r, b[j], x.Alphabet())
		_ = cur
		return true
	}},
	{"write:Sequence.SequenceChar", func(r *gen.Rand, x align.SeqBag) bool {
		i, _, _, ok := pickCell(r, x)
		if !ok {
			return false
		}
		q, _ := x.Sequence(i)
		b := q.SequenceChar()
		for k := range b { // the whole row
			b[k] = otherChar(r, b[k], x.Alphabet())
		}
		return true
	}},
	{"write:IterateChar", func(r *gen.Rand, x align.SeqBag) bool {
		done := false
		x.IterateChar(func(name string, seq []uint8) bool {
			if len(seq) > 0 {
				seq[0] = otherChar(r, seq[0], x.Alphabet())
				seq[len(seq)-1] = otherChar(r, seq[len(seq)-1], x.Alphabet())
				done = true
			}
			return false
		})
		return done
	}},
	{"ReverseComplement", func(r *gen.Rand, x align.SeqBag) bool {
		return x.NbSequences() > 0 && x.ReverseComplement() == nil
	}},
	{"ReverseComplementSequences", func(r *gen.Rand, x align.SeqBag) bool {
		if x.NbSequences() == 0 {
			return false
		}
		name, _ := x.GetSequenceNameById(r.Intn(x.NbSequences()))
		return x.ReverseComplementSequences(name) == nil
	}},
	{"ToLower", func(r *gen.Rand, x align.SeqBag) bool { x.ToLower(); return x.NbSequences() > 0 }},
	{"ToUpper", func(r *gen.Rand, x align.SeqBag) bool { x.ToUpper(); return x.NbSequences() > 0 }},
	{"Mask", func(r *gen.Rand, x align.SeqBag) bool {
		a, isal := x.(align.Alignment)
		if !isal || a.Length() <= 0 || a.NbSequences() == 0 {
			return false
		}
		st := r.Intn(a.Length())
		return a.Mask("", st, r.Range(1, a.Length()-st), r.PickStr([]string{"", "AMBIG", "GAP", "MAJ", "?"}), r.Bool(), false) == nil
	}},
	{"Mutate", func(r *gen.Rand, x align.SeqBag) bool {
		a, isal := x.(align.Alignment)
		if !isal || a.NbSequences() == 0 {
			return false
		}
		a.Mutate(r.PickF([]float64{0.3, 1}))
		return true
	}},
	{"Rename", func(r *gen.Rand, x align.SeqBag) bool {
		if x.NbSequences() == 0 {
			return false
		}
		m := map[string]string{}
		for i := 0; i < x.NbSequences(); i++ {
			if r.Chance(0.7) {
				n, _ := x.GetSequenceNameById(i)
				m[n] = "ren" + gen.Itoa(r.Intn(1000)) + "_" + gen.Itoa(i)
			}
		}
		x.Rename(m)
		return len(m) > 0
	}},
	{"Sequence.SetName", func(r *gen.Rand, x align.SeqBag) bool {
		if x.NbSequences() == 0 {
			return false
		}
		q, _ := x.Sequence(r.Intn(x.NbSequences()))
		q.SetName("setname" + gen.Itoa(r.Intn(1000)))
		x.Rename(map[string]string{}) // lets the container refresh its name index
		return true
	}},
	{"AppendSeqIdentifier", func(r *gen.Rand, x align.SeqBag) bool {
		x.AppendSeqIdentifier("id"+gen.Itoa(r.Intn(100)), r.Bool())
		return x.NbSequences() > 0
	}},
	{"AddSequence", func(r *gen.Rand, x align.SeqBag) bool {
		L := 1 + r.Intn(8)
		if a, isal := x.(align.Alignment); isal && a.NbSequences() > 0 {
			L = a.Length()
		}
		pool := "ACGT"
		if x.Alphabet() == align.AMINOACIDS {
			pool = gen.AaCore
		}
		return x.AddSequence("zz_added"+gen.Itoa(r.Intn(1000)), r.Str(L, pool), "added") == nil
	}},
	{"Sort", func(r *gen.Rand, x align.SeqBag) bool { x.Sort(); return x.NbSequences() > 1 }},
	{"ShuffleSequences", func(r *gen.Rand, x align.SeqBag) bool { x.ShuffleSequences(); return x.NbSequences() > 1 }},
	{"RemoveGapSites", func(r *gen.Rand, x align.SeqBag) bool {
		a, isal := x.(align.Alignment)
		if !isal || a.NbSequences() == 0 || a.Length() <= 0 {
			return false
		}
		before := a.Length()
		a.RemoveGapSites(r.PickF([]float64{0, 0.3, 1}), r.Bool())
		return a.Length() != before
	}},
	{"Replace", func(r *gen.Rand, x align.SeqBag) bool {
		if x.NbSequences() == 0 {
			return false
		}
		from, to := "A", "C"
		if r.Bool() {
			from, to = "G", "T"
		}
		return x.Replace(from, to, r.Chance(0.3)) == nil
	}},
	{"Sequence.Reverse", func(r *gen.Rand, x align.SeqBag) bool {
		if x.NbSequences() == 0 {
			return false
		}
		q, _ := x.Sequence(r.Intn(x.NbSequences()))
		q.Reverse()
		return q.Length() > 1
	}},
	{"Sequence.Complement", func(r *gen.Rand, x align.SeqBag) bool {
		if x.NbSequences() == 0 {
			return false
		}
		q, _ := x.Sequence(r.Intn(x.NbSequences()))
		return q.Complement() == nil && q.Length() > 0
	}},
	{"TrimSequences", func(r *gen.Rand, x align.SeqBag) bool {
		a, isal := x.(align.Alignment)
		if !isal || a.Length() < 2 {
			return false
		}
		return a.TrimSequences(r.Range(1, a.Length()-1), r.Bool()) == nil
	}},
	{"DiffWithFirst", func(r *gen.Rand, x align.SeqBag) bool {
		a, isal := x.(align.Alignment)
		if !isal || a.NbSequences() < 2 {
			return false
		}
		a.DiffWithFirst()
		return true
	}},
	{"AddGaps", func(r *gen.Rand, x align.SeqBag) bool {
		a, isal := x.(align.Alignment)
		if !isal || a.NbSequences() == 0 || a.Length() <= 0 {
			return false
		}
		a.AddGaps(0.5, 0.5)
		return true
	}},
	{"Concat", func(r *gen.Rand, x align.SeqBag) bool {
		a, isal := x.(align.Alignment)
		if !isal || a.NbSequences() == 0 {
			return false
		}
		o := align.NewAlign(a.Alphabet())
		for i := 0; i < a.NbSequences(); i++ {
			n, _ := a.GetSequenceNameById(i)
			o.AddSequence(n, "AC", "")
		}
		return a.Concat(o) == nil
	}},
	{"Deduplicate", func(r *gen.Rand, x align.SeqBag) bool {
		if x.NbSequences() == 0 {
			return false
		}
		_, err := x.Deduplicate(false)
		return err == nil
	}},
	{"Clear", func(r *gen.Rand, x align.SeqBag) bool {
		if x.NbSequences() == 0 || !r.Chance(0.15) {
			return false
		}
		x.Clear()
		return true
	}},
}

var mutatorNames = func() []string {
	out := make([]string, len(mutators))
	for i, m := range mutators {
		out[i] = m.name
	}
	return out
}()

// mutate applies k random in-place mutations to x and returns what was done.
// Mutators that fail or panic on this object are other properties' business:
// they are counted and skipped.
func mutate(c *mon.Case, r *gen.Rand, x align.SeqBag, k int, side string) []string {
	var done []string
	// the first mutation always rewrites residues, so that shared bytes show
	first := []int{0, 2, 4, 5, 9}
	for t, tries := 0, 0; t < k && tries < 6*k; tries++ {
		var m mutator
		if t == 0 {
			m = mutators[first[r.Intn(len(first))]]
		} else {
			m = mutators[r.Intn(len(mutators))]
		}
		okk := false
		rand.Seed(int64(r.U64() >> 1))
		pan, _, _ := mon.Protect(func() { okk = m.f(r, x) })
		if pan {
			c.Count("mutator-panicked:" + m.name)
			continue
		}
		if !okk {
			continue
		}
		c.Count("mut:" + m.name)
		c.Count("mut-" + side + ":" + m.name)
		done = append(done, m.name)
		t++
	}
	return done
}

// mutateSeq applies in-place mutations to one Sequence object.
func mutateSeq(c *mon.Case, r *gen.Rand, q align.Sequence, alpha int) []string {
	var done []string
	k := r.Range(1, 3)
	for t := 0; t < k; t++ {
		switch r.Intn(5) {
		case 0:
			q.Reverse()
			done = append(done, "Sequence.Reverse")
		case 1:
			if q.Complement() == nil {
				done = append(done, "Sequence.Complement")
			}
		case 2:
			q.SetName(q.Name() + "_m")
			done = append(done, "Sequence.SetName")
		default:
			b := q.SequenceChar()
			for i := range b {
				b[i] = otherChar(r, b[i], alpha)
			}
			done = append(done, "write:SequenceChar")
		}
	}
	// make sure at least one residue changed
	b := q.SequenceChar()
	if len(b) > 0 {
		b[0] = otherChar(r, b[0], alpha)
		b[len(b)-1] = otherChar(r, b[len(b)-1], alpha)
		done = append(done, "write:SequenceChar[ends]")
	}
	for _, d := range done {
		c.Count("mut:" + d)
	}
	return done
}
