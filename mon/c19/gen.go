// Input generators of the C19 monitor.
package main

import (
	"fmt"
	"strings"

	"github.com/evolbioinfo/goalign/align"

	"verif/lib/gen"
)

// input is one generated container with its plain description.
type input struct {
	Kind     string   `json:"kind"` // nt | aa
	Names    []string `json:"names"`
	Seqs     []string `json:"seqs"`
	Comments []string `json:"comments"`
	// the container is created with align.UNKNOWN (alphabet not detected yet)
	UnknownAlphabet bool `json:"unknown_alphabet,omitempty"`
	alpha           int
}

func (in *input) key() string {
	return in.Kind + fmt.Sprint(in.UnknownAlphabet) + "|" + strings.Join(in.Names, "\x00") + "|" + strings.Join(in.Seqs, "\x00")
}

func (in *input) align() align.Alignment {
	a := align.NewAlign(in.alpha)
	for i := range in.Seqs {
		if err := a.AddSequence(in.Names[i], in.Seqs[i], in.Comments[i]); err != nil {
			panic("harness: " + err.Error())
		}
	}
	return a
}

func (in *input) bag() align.SeqBag {
	a := align.NewSeqBag(in.alpha)
	for i := range in.Seqs {
		if err := a.AddSequence(in.Names[i], in.Seqs[i], in.Comments[i]); err != nil {
			panic("harness: " + err.Error())
		}
	}
	return a
}

// nonTrivial: at least two rows, at least two columns, rows not all equal.
func (in *input) nonTrivial() bool {
	if len(in.Seqs) < 2 || len(in.Seqs[0]) < 2 {
		return false
	}
	for _, s := range in.Seqs[1:] {
		if s != in.Seqs[0] {
			return true
		}
	}
	return false
}

var ntMixes = []string{"ACGT", "ACGT", "ACGTACGTACGTN-", "ACGTACGTRYSWKMBDHVN-", "ACGTacgt-", "ACGTACGTACGT-N*.", "ACGTACGT--", "ACGU-", "ACGTACGTacgtn?-"}
var ntMixesStrict = []string{"ACGT", "ACGT", "ACGTACGTACGTN-", "ACGTACGTRYSWKMBDHVN-", "ACGTacgt-", "ACGTACGTACGT-N", "ACGTACGT--", "ACGTAG", "AACCGT-"}
var aaMixes = []string{gen.AaCore, gen.AaCore + "X-", gen.AaCore + gen.AaLower + "Xx-", gen.AaCore + gen.AaCore + "BZX*-", gen.AaCore + "--", "ILVMFEQP" + "-"}

func comments(r *gen.Rand, n int) []string {
	out := make([]string, n)
	for i := range out {
		if r.Chance(0.4) {
			out[i] = r.PickStr([]string{"desc", "a comment", "len=12 x", "[organism=x]"})
		}
	}
	return out
}

// related rows: mutated copies of a base row, with gap runs
func relatedRows(r *gen.Rand, n, L int, alpha string) []string {
	base := r.Str(L, alpha)
	core := strings.Trim(alpha, "-*?.")
	if core == "" {
		core = alpha
	}
	rows := make([]string, n)
	rate := r.PickF([]float64{0, 0.05, 0.2, 0.5, 1})
	for i := range rows {
		b := []byte(base)
		if i > 0 || r.Bool() {
			for j := range b {
				if r.Chance(rate) {
					b[j] = alpha[r.Intn(len(alpha))]
				}
			}
		}
		if strings.Contains(alpha, "-") && r.Chance(0.4) && L > 0 {
			st := r.Intn(L)
			for k, m := 0, r.Range(1, 1+L/4); k < m && st+k < L; k++ {
				b[st+k] = '-'
			}
			if r.Chance(0.3) {
				for k := 0; k < L && k < 3; k++ {
					b[k] = '-'
				}
			}
			if r.Chance(0.3) {
				for k := 0; k < L && k < 2; k++ {
					b[L-1-k] = '-'
				}
			}
		}
		rows[i] = string(b)
	}
	if r.Chance(0.15) && n > 1 && strings.Contains(alpha, "-") { // a gap only column / row
		j := r.Intn(L)
		for i := range rows {
			b := []byte(rows[i])
			b[j] = '-'
			rows[i] = string(b)
		}
	}
	return rows
}

func pickLen(r *gen.Rand, big bool) int {
	if big {
		return r.PickInt([]int{1, 2, 3, 9, 10, 11, 49, 50, 51, 59, 60, 61, 79, 80, 81, 100, 101, 121, 161})
	}
	return r.PickInt([]int{1, 2, 3, 4, 5, 6, 7, 9, 12, 15, 20, 30, 45, 60})
}

// genInput builds a nucleotide or protein input. strict: only symbols every model accepts.
func genInput(r *gen.Rand, kind string, big, strict bool, minRows int) *input {
	n := r.Range(minRows, 7)
	if r.Chance(0.1) {
		n = minRows
	}
	L := pickLen(r, big)
	in := &input{Kind: kind}
	var alpha string
	if kind == "nt" {
		in.alpha = align.NUCLEOTIDS
		if strict {
			alpha = ntMixesStrict[r.Intn(len(ntMixesStrict))]
		} else {
			alpha = ntMixes[r.Intn(len(ntMixes))]
		}
	} else {
		in.alpha = align.AMINOACIDS
		alpha = aaMixes[r.Intn(len(aaMixes))]
		if strict {
			alpha = aaMixes[r.Intn(4)]
		}
	}
	in.Seqs = relatedRows(r, n, L, alpha)
	in.Names = gen.UniqueNames(r, n, r.Chance(0.5))
	in.Comments = comments(r, n)
	if !strict && r.Chance(0.1) {
		// containers built before the alphabet is known (what the parsers do before AutoAlphabet)
		in.alpha = align.UNKNOWN
		in.UnknownAlphabet = true
	}
	return in
}

func randKind(r *gen.Rand) string {
	if r.Chance(0.4) {
		return "aa"
	}
	return "nt"
}

// unaligned set: rows of different lengths, no gaps
func genBag(r *gen.Rand, kind string) *input {
	n := r.Range(1, 6)
	in := &input{Kind: kind, alpha: align.NUCLEOTIDS}
	alpha := "ACGT"
	if kind == "aa" {
		in.alpha = align.AMINOACIDS
		alpha = gen.AaCore
	} else if r.Chance(0.3) {
		alpha = "ACGTacgtN"
	}
	for i := 0; i < n; i++ {
		in.Seqs = append(in.Seqs, r.Str(r.Range(1, 40), alpha))
	}
	in.Names = gen.UniqueNames(r, n, r.Chance(0.5))
	in.Comments = comments(r, n)
	return in
}

// ---- coding sequences for the ORF / phasing entry points

var senseCodons = func() []string {
	var out []string
	for _, a := range "ACGT" {
		for _, b := range "ACGT" {
			for _, c := range "ACGT" {
				cd := string([]rune{a, b, c})
				if cd != "TAA" && cd != "TAG" && cd != "TGA" {
					out = append(out, cd)
				}
			}
		}
	}
	return out
}()

func genOrf(r *gen.Rand, codons int) string {
	var sb strings.Builder
	sb.WriteString("ATG")
	for i := 0; i < codons; i++ {
		sb.WriteString(senseCodons[r.Intn(len(senseCodons))])
	}
	sb.WriteString(r.PickStr([]string{"TAA", "TAG", "TGA"}))
	return sb.String()
}

func revComp(s string) string {
	m := map[byte]byte{'A': 'T', 'C': 'G', 'G': 'C', 'T': 'A', 'a': 't', 'c': 'g', 'g': 'c', 't': 'a', 'N': 'N', 'n': 'n'}
	b := make([]byte, len(s))
	for i := range s {
		c, ok := m[s[i]]
		if !ok {
			c = s[i]
		}
		b[len(s)-1-i] = c
	}
	return string(b)
}

// genCoding returns an ORF and sequences that each embed a (lightly mutated) copy
// of it, start codon intact, between random flanks; some on the reverse strand
// when rev is set.
func genCoding(r *gen.Rand, rev bool) (orf string, in *input) {
	orf = genOrf(r, r.Range(6, 25))
	n := r.Range(1, 6)
	in = &input{Kind: "nt", alpha: align.NUCLEOTIDS}
	for i := 0; i < n; i++ {
		b := []byte(orf)
		rate := r.PickF([]float64{0, 0.03, 0.1})
		for j := 3; j < len(b)-3; j++ {
			if r.Chance(rate) {
				b[j] = "ACGT"[r.Intn(4)]
			}
		}
		core := string(b)
		if r.Chance(0.2) && len(core) > 12 { // a deletion of one codon
			p := 3 * r.Range(1, len(core)/3-2)
			core = core[:p] + core[p+3:]
		}
		s := r.Str(r.Intn(8), "ACGT") + core + r.Str(r.Intn(8), "ACGT")
		if rev && r.Chance(0.4) {
			// on the reverse strand; an upper case start codon stays readable on the forward strand
			s = "ATG" + revComp(s)
		}
		if r.Chance(0.15) {
			s = s[:len(s)/2] + strings.ToLower(s[len(s)/2:])
		}
		in.Seqs = append(in.Seqs, s)
	}
	in.Names = gen.UniqueNames(r, n, false)
	in.Comments = comments(r, n)
	return
}

func hasATG(s string, rev bool) bool {
	u := strings.ToUpper(s)
	if strings.Contains(u, "ATG") {
		return true
	}
	return rev && strings.Contains(strings.ToUpper(revComp(s)), "ATG")
}
