// Fixed witnesses of the C19 monitor: the defects found on goalign (kept after the repair)
// and the corners where sharing would be a natural shortcut.
package main

import (
	"fmt"
	"math/rand"
	"strings"

	"github.com/evolbioinfo/goalign/align"
	"github.com/evolbioinfo/goalign/distance/dna"
	"github.com/evolbioinfo/goalign/io/clustal"
	"github.com/evolbioinfo/goalign/io/fasta"
	"github.com/evolbioinfo/goalign/io/phylip"

	"verif/lib/mon"
)

func wAlign(alpha int, rows ...string) align.Alignment {
	a := align.NewAlign(alpha)
	for i, s := range rows {
		a.AddSequence(fmt.Sprintf("s%d", i), s, fmt.Sprintf("comment %d", i))
	}
	return a
}

func wBag(alpha int, rows ...string) align.SeqBag {
	a := align.NewSeqBag(alpha)
	for i, s := range rows {
		a.AddSequence(fmt.Sprintf("s%d", i), s, "")
	}
	return a
}

type witness struct {
	name string
	run  func(c *mon.Case, e *env)
}

func wOwner(op, desc string, mk func() align.Alignment, produce func(a align.Alignment) []align.SeqBag) func(c *mon.Case, e *env) {
	return func(c *mon.Case, e *env) {
		for seed := int64(0); seed < 12; seed++ {
			rand.Seed(seed)
			a := mk()
			e.ws = []*watcher{watch("original", a)}
			var objs []align.SeqBag
			if !e.call(op, func() { objs = produce(a) }) || len(objs) == 0 {
				c.Failf(op+":witness-no-result", "%s returned nothing on the witness input", op)
				return
			}
			e.ownership(op, desc, a, objs)
		}
	}
}

func one(x align.Alignment, err error) []align.SeqBag {
	if err != nil || x == nil {
		return nil
	}
	return []align.SeqBag{x}
}

var ntRows = []string{"ACGTACGTAC--GTAC", "ACGAACGTACGGGTAC", "TTGTACGTACAAGTAC", "acgtnnGTACAAGTAC"}

var witnesses = []witness{
	{"RandSubAlign(consecutive) result owns its rows (defect 25, repaired by c9f9836)", wOwner("RandSubAlign(consecutive)", "length 5 of 16",
		func() align.Alignment { return wAlign(align.NUCLEOTIDS, ntRows...) },
		func(a align.Alignment) []align.SeqBag { return one(a.RandSubAlign(5, true)) })},
	{"RandSubAlign(consecutive) of the whole length", wOwner("RandSubAlign(consecutive)", "length 16 of 16",
		func() align.Alignment { return wAlign(align.NUCLEOTIDS, ntRows...) },
		func(a align.Alignment) []align.SeqBag { return one(a.RandSubAlign(16, true)) })},
	{"RandSubAlign(sampled)", wOwner("RandSubAlign(sampled)", "length 7 of 16",
		func() align.Alignment { return wAlign(align.NUCLEOTIDS, ntRows...) },
		func(a align.Alignment) []align.SeqBag { return one(a.RandSubAlign(7, false)) })},
	{"SubAlign of the whole alignment", wOwner("SubAlign", "start 0 length 16 of 16",
		func() align.Alignment { return wAlign(align.NUCLEOTIDS, ntRows...) },
		func(a align.Alignment) []align.SeqBag { return one(a.SubAlign(0, 16)) })},
	{"SubAlign of a prefix / suffix", wOwner("SubAlign", "start 0 length 9, then 9..16",
		func() align.Alignment { return wAlign(align.NUCLEOTIDS, ntRows...) },
		func(a align.Alignment) []align.SeqBag {
			x, _ := a.SubAlign(0, 9)
			y, _ := a.SubAlign(9, 7)
			return []align.SeqBag{x, y}
		})},
	{"SelectSites identity selection", wOwner("SelectSites", "sites 0..15",
		func() align.Alignment { return wAlign(align.NUCLEOTIDS, ntRows...) },
		func(a align.Alignment) []align.SeqBag {
			return one(a.SelectSites([]int{0, 1, 2, 3, 4, 5, 6, 7, 8, 9, 10, 11, 12, 13, 14, 15}))
		})},
	{"Clone keeps comments and policy, shares nothing", wOwner("Clone", "IGNORE_SEQUENCE policy",
		func() align.Alignment {
			a := wAlign(align.AMINOACIDS, "MKV-LLAX", "MKVQLLA*", "mkvqllaa")
			a.IgnoreIdentical(align.IGNORE_SEQUENCE)
			return a
		},
		func(a align.Alignment) []align.SeqBag { return one(a.Clone()) })},
	{"CloneSeqBag of an alignment", wOwner("CloneSeqBag", "",
		func() align.Alignment { return wAlign(align.NUCLEOTIDS, ntRows...) },
		func(a align.Alignment) []align.SeqBag {
			x, err := a.CloneSeqBag()
			if err != nil {
				return nil
			}
			return []align.SeqBag{x}
		})},
	{"Unalign of rows without any gap", wOwner("Unalign", "no gap to remove",
		func() align.Alignment { return wAlign(align.NUCLEOTIDS, "ACGTAC", "TTGTAC") },
		func(a align.Alignment) []align.SeqBag { return []align.SeqBag{a.Unalign()} })},
	{"Consensus of a single row", wOwner("Consensus", "one row",
		func() align.Alignment { return wAlign(align.NUCLEOTIDS, "ACGTNN-AC") },
		func(a align.Alignment) []align.SeqBag { return []align.SeqBag{a.Consensus(false, false)} })},
	{"Transpose of a single column / BuildBootstrap of everything", wOwner("Transpose", "4 x 1",
		func() align.Alignment { return wAlign(align.NUCLEOTIDS, "A", "C", "G", "T") },
		func(a align.Alignment) []align.SeqBag {
			x, _ := a.Transpose()
			return []align.SeqBag{x, a.BuildBootstrap(1)}
		})},
	{"Split results own their rows", wOwner("Split", "two ranges",
		func() align.Alignment { return wAlign(align.NUCLEOTIDS, ntRows...) },
		func(a align.Alignment) []align.SeqBag {
			ps := align.NewPartitionSet(16)
			ps.AddRange("p1", "m", 0, 7, 1)
			ps.AddRange("p2", "m", 8, 15, 1)
			xs, err := a.Split(ps)
			if err != nil {
				return nil
			}
			var out []align.SeqBag
			for _, x := range xs {
				out = append(out, x)
			}
			return out
		})},
	{"LongestORF on the forward strand returns a sequence that owns its residues", func(c *mon.Case, e *env) {
		sb := wBag(align.NUCLEOTIDS, "CCATGAAATTTTAGCC", "ACGTACGT")
		e.ws = []*watcher{watch("sequences", sb)}
		st := storeOf(sb)
		var orf align.Sequence
		var err error
		e.call("LongestORF(forward)", func() { orf, err = sb.LongestORF(false) })
		if err != nil || orf == nil || orf.Sequence() != "ATGAAATTTTAG" {
			c.Failf("LongestORF:witness-no-result", "expected ATGAAATTTTAG, got %v %v", orf, err)
			return
		}
		e.resultOwns("LongestORF(forward)", st, orf, align.NUCLEOTIDS)
	}},
	{"LongestORF found on the reverse strand", func(c *mon.Case, e *env) {
		sb := wBag(align.NUCLEOTIDS, revComp("CCATGAAATTTCCCTAGCC"), "ATGAAATAG")
		e.ws = []*watcher{watch("sequences", sb)}
		st := storeOf(sb)
		var orf align.Sequence
		var err error
		e.call("LongestORF(both strands)", func() { orf, err = sb.LongestORF(true) })
		if err != nil || orf == nil || orf.Sequence() != "ATGAAATTTCCCTAG" {
			c.Failf("LongestORF:witness-no-result", "expected ATGAAATTTCCCTAG, got %v %v", orf, err)
			return
		}
		e.resultOwns("LongestORF(both strands)", st, orf, align.NUCLEOTIDS)
	}},
	{"Phase (translated) returns sequences that own their residues", func(c *mon.Case, e *env) { wPhase(c, e, true) }},
	{"Phase (nucleotides) returns sequences that own their residues", func(c *mon.Case, e *env) { wPhase(c, e, false) }},
	{"pairwise aligner (ATG mode) failing on the second sequence leaves the first one as it was", func(c *mon.Case, e *env) {
		for _, algo := range []int{align.ALIGN_ALGO_ATG, align.ALIGN_ALGO_SW} {
			q1 := align.NewSequence("a", []uint8("ATGCCGTTA"), "")
			q2 := align.NewSequence("b", []uint8("ATGC-GTTAGG"), "")
			e.ws = []*watcher{watchSeq("seq1", q1), watchSeq("seq2", q2)}
			var err error
			e.call("NewPwAligner+Alignment(fails midway)", func() { _, err = align.NewPwAligner(q1, q2, algo).Alignment() })
			if err == nil {
				c.Failf("NewPwAligner:witness-no-error", "a gap in the second sequence was expected to be refused")
			}
			q3 := align.NewSequence("c", []uint8("ATGCCGTTAGG"), "")
			e.ws = []*watcher{watchSeq("seq1", q1), watchSeq("seq2", q3)}
			var res align.Alignment
			e.call("NewPwAligner+Alignment(ATG)", func() { res, err = align.NewPwAligner(q1, q3, algo).Alignment() })
			if err != nil || res == nil {
				c.Failf("NewPwAligner:witness-no-result", "%v", err)
				return
			}
			st := storeOfSeq(q1)
			st.addSeq(q3, 1)
			if d := st.shared(res); d != "" {
				c.Failf("NewPwAligner+Alignment(ATG):result-shares-storage", "%s", d)
			}
			res.ToLower()
			res.ReverseComplement()
			for _, w := range e.ws {
				if d := w.recheck(); d != "" {
					c.Failf("NewPwAligner+Alignment(ATG):result-mutation-changed-input", "%s", d)
				}
			}
		}
	}},
	{"writers and distance models on lower case / ambiguous rows", func(c *mon.Case, e *env) {
		a := wAlign(align.NUCLEOTIDS, "acgtnACGTN--ryk", "acgaaACGTNccRYK", "ACGTTacgtnGGryk")
		e.ws = []*watcher{watch("alignment", a)}
		e.call("fasta.WriteAlignment", func() { fasta.WriteAlignment(a) })
		e.call("fasta.WriteSequences", func() { fasta.WriteSequences(a) })
		e.call("phylip.WriteAlignment", func() { phylip.WriteAlignment(a, true, false, false) })
		e.call("clustal.WriteAlignment", func() { clustal.WriteAlignment(a) })
		for _, mn := range ntModels {
			for _, cpus := range []int{1, 3} {
				m, _ := dna.Model(mn, true)
				e.call("dna.DistMatrix", func() { dna.DistMatrix(a, nil, m, -1, -1, -1, -1, true, 0.5, cpus) })
			}
		}
		e.call("Stops", func() { wAlign(align.NUCLEOTIDS, "AUGUAA", "AUGUAA") })
		rna := wAlign(align.NUCLEOTIDS, "AUGAAAUAA", "AUGCCCUAA", "augcccuag")
		e.ws = []*watcher{watch("rna alignment", rna)}
		e.call("Stops", func() { rna.Stops(false, align.GENETIC_CODE_STANDARD) })
		e.call("Frameshifts", func() { rna.Frameshifts(true) })
		e.call("Sequence.Translate", func() { q, _ := rna.Sequence(2); q.Translate(0, 0) })
	}},
	{"Sample / Rarefy hand over the rows by construction: only the call is checked", func(c *mon.Case, e *env) {
		a := wAlign(align.NUCLEOTIDS, ntRows...)
		e.ws = []*watcher{watch("original", a)}
		runSharers(e, a, &input{Names: []string{"s0", "s1", "s2", "s3"}, Seqs: ntRows})
		q, _ := a.Sequence(1)
		cl := q.Clone()
		cl.Reverse()
		cl.SetName("x")
		for _, w := range e.ws {
			if d := w.recheck(); d != "" {
				c.Failf("Sequence.Clone:copy-mutation-changed-original", "%s", d)
			}
		}
	}},
}

func wPhase(c *mon.Case, e *env, translate bool) {
	orf := "ATGGCTAAAGGTCTGGAATTCCCGTAA"
	seqs := wBag(align.NUCLEOTIDS, "CC"+orf+"GGA", "A"+strings.Replace(orf, "AAAGGT", "AAGGGT", 1)+"TT", revComp("GG"+orf+"C"))
	for _, given := range []bool{true, false} {
		for _, cpus := range []int{1, 3} {
			var orfs align.SeqBag
			e.ws = []*watcher{watch("sequences", seqs)}
			st := storeOf(seqs)
			if given {
				orfs = wBag(align.NUCLEOTIDS, orf)
				e.ws = append(e.ws, watch("reference ORFs", orfs))
				st.addSeq(orfs.Sequences()[0], 100)
			}
			ph := align.NewPhaser()
			ph.SetReverse(true)
			ph.SetCutEnd(cpus == 1)
			ph.SetCpus(cpus)
			ph.SetTranslate(translate, align.GENETIC_CODE_STANDARD)
			op := "Phase(nt)"
			if translate {
				op = "Phase(translate)"
			}
			var out []align.PhasedSequence
			var err error
			e.call(op, func() {
				ch, er := ph.Phase(orfs, seqs)
				err = er
				if er == nil {
					out = drain(ch)
				}
			})
			if err != nil || len(out) != 3 {
				c.Failf("Phase:witness-no-result", "expected 3 phased sequences, got %d, %v", len(out), err)
				return
			}
			for _, p := range out {
				if p.Err != nil {
					c.Failf("Phase:witness-no-result", "%v", p.Err)
					continue
				}
				e.resultOwns(op+".NtSeq", st, p.NtSeq, align.NUCLEOTIDS)
				e.resultOwns(op+".CodonSeq", st, p.CodonSeq, align.NUCLEOTIDS)
				e.resultOwns(op+".AaSeq", st, p.AaSeq, align.NUCLEOTIDS)
			}
		}
	}
}

func runWitness(c *mon.Case) {
	w := witnesses[c.Idx%len(witnesses)]
	c.Input(map[string]interface{}{"witness": w.name})
	e := &env{c: c, r: c.R}
	w.run(c, e)
	c.NonTrivial(w.name)
	c.Count("witness")
}
