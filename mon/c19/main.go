// C19 monitor: queries never modify their input; copies share nothing with the original.
//
// Every read-only or copy-producing entry point is called on generated inputs between
// two deep snapshots of the receiver and of every argument (taken through the public
// accessors); results documented as owning their data are then mutated in place (and
// the original afterwards) and must turn out to share no byte cell and no row object.
package main

import (
	"bufio"
	"fmt"
	"io"
	"math/rand"
	"strings"

	"github.com/evolbioinfo/goalign/align"
	"github.com/evolbioinfo/goalign/distance/dna"
	"github.com/evolbioinfo/goalign/distance/protein"
	"github.com/evolbioinfo/goalign/draw"
	"github.com/evolbioinfo/goalign/io/clustal"
	"github.com/evolbioinfo/goalign/io/fasta"
	"github.com/evolbioinfo/goalign/io/nexus"
	"github.com/evolbioinfo/goalign/io/paml"
	"github.com/evolbioinfo/goalign/io/phylip"
	"github.com/evolbioinfo/goalign/io/stockholm"
	protmodel "github.com/evolbioinfo/goalign/models/protein"

	"verif/lib/gen"
	"verif/lib/mon"
)

// env carries one case.
type env struct {
	c  *mon.Case
	r  *gen.Rand
	ws []*watcher // objects no call of this case may change
}

// call runs one entry point and verifies that none of the watched objects changed.
// A panic of the entry point itself is not this property's business (the input must
// still be intact): it is counted, never folded into the op counter.
func (e *env) call(op string, f func()) bool {
	pan, msg, _ := mon.Protect(f)
	for _, w := range e.ws {
		if d := w.recheck(); d != "" {
			e.c.Failf(op+":modified-input", "%s changed what the accessors show of its input\n%s", op, d)
		}
	}
	if pan {
		e.c.Count("panicked:" + op)
		if i := strings.Index(msg, "\n"); i > 0 {
			msg = msg[:i]
		}
		e.c.Note("%s panicked: %s", op, msg)
		return false
	}
	e.c.Count("op:" + op)
	return true
}

func (e *env) argInts(op string, before, now []int) {
	if !eqInts(before, now) {
		e.c.Failf(op+":modified-argument", "%s changed its []int argument: %v became %v", op, before, now)
	}
}

func (e *env) argFloats(op string, before, now []float64) {
	if !eqFloats(before, now) {
		e.c.Failf(op+":modified-argument", "%s changed its weights argument: %v became %v", op, before, now)
	}
}

func seedGoalign(r *gen.Rand) { rand.Seed(int64(r.U64() >> 1)) }

// ======================================================================= writers

var writerOps = []string{"fasta.WriteAlignment", "fasta.WriteSequences", "phylip.WriteAlignment", "nexus.WriteAlignment", "clustal.WriteAlignment", "stockholm.WriteAlignment", "paml.WriteAlignment", "String", "fasta.WriteAlignment(seqbag)", "fasta.WriteSequences(seqbag)"}

func runWriters(c *mon.Case) {
	r := c.R
	in := genInput(r, randKind(r), true, false, 1)
	c.Input(in)
	al := in.align()
	e := &env{c: c, r: r, ws: []*watcher{watch("alignment", al)}}
	total := 0
	e.call("fasta.WriteAlignment", func() { total += len(fasta.WriteAlignment(al)) })
	e.call("fasta.WriteSequences", func() { total += len(fasta.WriteSequences(al)) })
	for o := 0; o < 8; o++ {
		strict, oneline, noblock := o&1 != 0, o&2 != 0, o&4 != 0
		if e.call("phylip.WriteAlignment", func() { total += len(phylip.WriteAlignment(al, strict, oneline, noblock)) }) {
			c.Count(fmt.Sprintf("phylip:strict=%v,oneline=%v,noblock=%v", strict, oneline, noblock))
		}
	}
	e.call("nexus.WriteAlignment", func() { total += len(nexus.WriteAlignment(al)) })
	e.call("clustal.WriteAlignment", func() { total += len(clustal.WriteAlignment(al)) })
	e.call("stockholm.WriteAlignment", func() { total += len(stockholm.WriteAlignment(al)) })
	e.call("paml.WriteAlignment", func() { total += len(paml.WriteAlignment(al)) })
	e.call("String", func() { total += len(al.String()) })
	// the graphical writers
	e.call("draw.PngLayout.DrawAlign", func() {
		w := bufio.NewWriter(io.Discard)
		draw.NewPngLayout(w).DrawAlign(al)
		total += w.Buffered()
	})
	if c.Idx%8 == 0 {
		e.call("draw.BioJSLayout.DrawAlign", func() {
			w := bufio.NewWriter(io.Discard)
			draw.NewBioJSLayout(w).DrawAlign(al)
		})
	}

	// the writers that accept unaligned sets
	bin := genBag(r, in.Kind)
	sb := bin.bag()
	e.ws = []*watcher{watch("sequence set", sb)}
	e.call("fasta.WriteAlignment(seqbag)", func() { total += len(fasta.WriteAlignment(sb)) })
	e.call("fasta.WriteSequences(seqbag)", func() { total += len(fasta.WriteSequences(sb)) })
	e.call("String", func() { total += len(sb.String()) })

	c.Add("bytes-written", total)
	L := len(in.Seqs[0])
	switch {
	case L > 80:
		c.Count("width:>80")
	case L > 60:
		c.Count("width:61..80")
	case L > 50:
		c.Count("width:51..60")
	default:
		c.Count("width:<=50")
	}
	if in.nonTrivial() {
		c.NonTrivial(in.key())
	}
	c.Note("%d bytes written by all the writers (8 Phylip option sets), input intact", total)
}

// ======================================================================= statistics

var statOps = []string{"CharStats", "UniqueCharacters", "CharStatsSeq", "CharStatsSite", "MaxCharStats", "Consensus", "Entropy", "AvgAllelesPerSite",
	"NbVariableSites", "InformativeSites", "Pssm", "CountDifferences", "NewCountProfileFromAlignment", "NumGapsUniquePerSequence", "NumMutationsUniquePerSequence",
	"SiteConservation", "Frameshifts", "Stops", "RefCoordinates", "RefSites", "InverseCoordinates", "InversePositions", "Identical", "DetectAlphabet",
	"Sequence.NumGaps*", "Sequence.NumMutationsComparedToReferenceSequence", "Sequence.ListMutationsComparedToReferenceSequence", "Sequence.DetectAlphabet",
	"Sequence.LongestORF", "Sequence.Translate", "Sequence.SameSequence", "GetSequence*", "AlphabetCharToIndex"}

func pickSite(r *gen.Rand, L int) int {
	switch r.Intn(8) {
	case 0:
		return -1
	case 1:
		return L
	case 2:
		return 0
	case 3:
		return L - 1
	}
	return r.Intn(L)
}

func profileKey(p *align.CountProfile, L int) string {
	var sb strings.Builder
	for i := 0; i < p.NbCharacters(); i++ {
		n, _ := p.NameAt(i)
		cs, _ := p.CountsAt(i)
		fmt.Fprintf(&sb, "%c%v;", n, cs)
	}
	fmt.Fprintf(&sb, "len-ok=%v", p.CheckLength(L))
	return sb.String()
}

func runStats(c *mon.Case) {
	r := c.R
	in := genInput(r, randKind(r), false, false, 1)
	c.Input(in)
	al := in.align()
	n, L := al.NbSequences(), al.Length()
	e := &env{c: c, r: r, ws: []*watcher{watch("alignment", al)}}

	e.call("CharStats", func() { al.CharStats() })
	e.call("UniqueCharacters", func() { al.UniqueCharacters() })
	e.call("CharStatsSeq", func() { al.CharStatsSeq(r.Range(-1, n)) })
	e.call("CharStatsSite", func() { al.CharStatsSite(pickSite(r, L)) })
	for o := 0; o < 4; o++ {
		e.call("MaxCharStats", func() {
			out, _, _ := al.MaxCharStats(o&1 != 0, o&2 != 0)
			for i := range out { // the returned slice belongs to the caller
				out[i] = '#'
			}
		})
	}
	e.call("Consensus", func() { al.Consensus(r.Bool(), r.Bool()) })
	e.call("Entropy", func() { al.Entropy(pickSite(r, L), r.Bool()) })
	e.call("Entropy", func() { al.Entropy(r.Intn(L), r.Bool()) })
	e.call("AvgAllelesPerSite", func() { al.AvgAllelesPerSite() })
	e.call("NbVariableSites", func() { al.NbVariableSites() })
	e.call("InformativeSites", func() { al.InformativeSites() })
	norm := r.PickInt([]int{align.PSSM_NORM_NONE, align.PSSM_NORM_FREQ, align.PSSM_NORM_DATA, align.PSSM_NORM_UNIF, align.PSSM_NORM_LOGO})
	if e.call("Pssm", func() { al.Pssm(r.Bool(), r.PickF([]float64{0, 0.5, 1}), norm) }) {
		c.Count(fmt.Sprintf("pssm-norm:%d", norm))
	}
	e.call("CountDifferences", func() { al.CountDifferences() })
	var prof *align.CountProfile
	e.call("NewCountProfileFromAlignment", func() { prof = align.NewCountProfileFromAlignment(al) })
	// a profile of another alignment of the same length is an argument: it must stay intact too
	other := genInput(r, in.Kind, false, false, 1)
	opool := "ACGTN-"
	if in.Kind == "aa" {
		opool = gen.AaCore + "X-"
	}
	for i := range other.Seqs {
		other.Seqs[i] = r.Str(L, opool)
	}
	oal := other.align()
	e.ws = append(e.ws, watch("other alignment", oal))
	oprof := align.NewCountProfileFromAlignment(oal)
	for _, p := range []*align.CountProfile{nil, prof, oprof} {
		pk := ""
		if p != nil {
			pk = profileKey(p, L)
		}
		e.call("NumGapsUniquePerSequence", func() { al.NumGapsUniquePerSequence(p) })
		e.call("NumMutationsUniquePerSequence", func() { al.NumMutationsUniquePerSequence(p) })
		if p != nil && profileKey(p, L) != pk {
			c.Failf("Num*UniquePerSequence:modified-argument", "the count profile argument changed: %s became %s", pk, profileKey(p, L))
		}
	}
	e.call("SiteConservation", func() { al.SiteConservation(pickSite(r, L)) })
	e.call("SiteConservation", func() { al.SiteConservation(r.Intn(L)) })
	e.call("Frameshifts", func() { al.Frameshifts(r.Bool()) })
	e.call("Stops", func() {
		al.Stops(r.Bool(), r.PickInt([]int{align.GENETIC_CODE_STANDARD, align.GENETIC_CODE_VETEBRATE_MITO, align.GENETIC_CODE_INVETEBRATE_MITO}))
	})
	name := in.Names[r.Intn(n)]
	if r.Chance(0.1) {
		name = "no such row"
	}
	e.call("RefCoordinates", func() { al.RefCoordinates(name, r.Range(-1, L), r.Range(0, L+1)) })
	sites := make([]int, r.Range(0, 6))
	for i := range sites {
		sites[i] = r.Intn(L)
	}
	if r.Chance(0.15) {
		sites = append(sites, r.PickInt([]int{-1, L}))
	}
	keep := cpInts(sites)
	e.call("RefSites", func() { al.RefSites(name, sites) })
	e.argInts("RefSites", keep, sites)
	e.call("InversePositions", func() { al.InversePositions(sites) })
	e.argInts("InversePositions", keep, sites)
	e.call("InverseCoordinates", func() { al.InverseCoordinates(r.Range(-1, L), r.Range(0, L+1)) })
	e.call("Identical", func() { al.Identical(oal) })
	e.call("Identical", func() { oal.Identical(al) })
	if cl, err := al.Clone(); err == nil {
		cl.ShuffleSequences()
		e.ws = append(e.ws, watch("shuffled clone", cl))
		e.call("Identical", func() { al.Identical(cl) })
	}
	e.call("DetectAlphabet", func() { al.DetectAlphabet() })
	e.call("AlphabetCharToIndex", func() { al.AlphabetCharToIndex(in.Seqs[0][0]); al.AlphabetCharacters() })
	e.call("GetSequence*", func() {
		i := r.Intn(n)
		al.GetSequence(in.Names[i])
		al.GetSequenceById(i)
		al.GetSequenceIdByName(in.Names[i])
		al.GetSequenceByName(in.Names[i])
		al.SequenceByName(in.Names[i])
		al.GetSequenceById(n)
		al.GetSequenceCharById(-1)
	})

	// the row objects
	qi, ri := r.Intn(n), r.Intn(n)
	q, _ := al.Sequence(qi)
	ref, _ := al.Sequence(ri)
	e.call("Sequence.NumGaps*", func() { q.NumGaps(); q.NumGapsOpenning(); q.NumGapsFromStart(); q.NumGapsFromEnd() })
	e.call("Sequence.NumMutationsComparedToReferenceSequence", func() { q.NumMutationsComparedToReferenceSequence(al.Alphabet(), ref) })
	e.call("Sequence.ListMutationsComparedToReferenceSequence", func() { q.ListMutationsComparedToReferenceSequence(al.Alphabet(), ref, false) })
	e.call("Sequence.ListMutationsComparedToReferenceSequence", func() { q.ListMutationsComparedToReferenceSequence(al.Alphabet(), ref, true) })
	e.call("Sequence.DetectAlphabet", func() { q.DetectAlphabet() })
	e.call("Sequence.LongestORF", func() { q.LongestORF() })
	e.call("Sequence.SameSequence", func() { q.SameSequence(ref.SequenceChar()); q.CharAt(0); q.Sequence() })
	var tr align.Sequence
	if e.call("Sequence.Translate", func() { tr, _ = q.Translate(r.Intn(3), r.Intn(3)) }) && tr != nil {
		if d := storeOf(al).sharedSeq(tr); d != "" {
			c.Failf("Sequence.Translate:result-shares-storage", "%s", d)
		}
	}

	if in.nonTrivial() {
		c.NonTrivial(in.key())
	}
	c.Count("stats-kind:" + in.Kind)
	if in.UnknownAlphabet {
		c.Count("stats-unknown-alphabet")
	}
	c.Note("all statistics called on a %d x %d %s alignment, input intact", n, L, in.Kind)
}

// ======================================================================= distances

var ntModels = []string{"rawdist", "pdist", "jc", "k2p", "f81", "f84", "tn93"}
var protModels = []int{protmodel.MODEL_DAYHOFF, protmodel.MODEL_JTT, protmodel.MODEL_MTREV, protmodel.MODEL_LG, protmodel.MODEL_WAG, protmodel.MODEL_HIVB}

var distOps = []string{"dna.DistMatrix", "dna.DistModel.InitModel+Distance", "dna.BuildWeightsGamma", "dna.BuildWeightsDirichlet", "protein.MLDist", "protein.JC69Dist", "protein.InitModel"}

func genWeights(r *gen.Rand, L int) []float64 {
	switch r.Intn(3) {
	case 0:
		return nil
	case 1:
		w := make([]float64, L)
		for i := range w {
			w[i] = 1
		}
		return w
	}
	w := make([]float64, L)
	for i := range w {
		w[i] = float64(r.Range(0, 12)) / 4
	}
	return w
}

func runDist(c *mon.Case) {
	r := c.R
	seedGoalign(r)
	if c.Idx%3 != 0 {
		// ---- nucleotide models
		in := genInput(r, "nt", false, true, 2)
		if r.Chance(0.12) {
			// an alignment whose alphabet was never detected (built through the library): a distance computation that
			// refuses it, or serves it, leaves that as it is
			in.alpha, in.UnknownAlphabet = align.UNKNOWN, true
			c.Count("dist-unknown-alphabet")
		}
		L := len(in.Seqs[0])
		al := in.align()
		e := &env{c: c, r: r, ws: []*watcher{watch("alignment", al)}}
		model := ntModels[r.Intn(len(ntModels))]
		rmgaps := r.Chance(0.4)
		gamma := r.Chance(0.4)
		alpha := r.PickF([]float64{0.3, 0.7, 1, 2.5})
		cpus := r.PickInt([]int{1, 1, 2, 4, 8})
		w := genWeights(r, L)
		keep := cpFloats(w)
		ranges := []int{-1, -1, -1, -1}
		if r.Chance(0.3) {
			n := len(in.Seqs)
			a := r.Intn(n)
			b := r.Intn(n)
			ranges = []int{a, r.Range(a, n), b, r.Range(b, n)}
		}
		c.Input(map[string]interface{}{"input": in, "model": model, "rmgaps": rmgaps, "gamma": gamma, "alpha": alpha, "cpus": cpus, "weights": w, "ranges": ranges})
		m, err := dna.Model(model, rmgaps)
		if err != nil {
			panic("harness: " + err.Error())
		}
		switch mm := m.(type) {
		case *dna.PDistModel:
			mm.SetCountGapMutations(r.Intn(3))
			mm.SetRemoveAmbiguous(r.Bool())
		case *dna.RawDistModel:
			mm.SetCountGapMutations(r.Intn(3))
		}
		c.Checkpoint()
		var derr error
		if e.call("dna.DistMatrix", func() {
			_, derr = dna.DistMatrix(al, w, m, ranges[0], ranges[1], ranges[2], ranges[3], gamma, alpha, cpus)
		}) {
			if derr != nil {
				c.Count("dist-error:" + model)
			} else {
				c.Count("dna-model:" + model)
				c.Count(fmt.Sprintf("dna-cpus:%d", cpus))
			}
		}
		e.argFloats("dna.DistMatrix", keep, w)
		// the model API used directly
		m2, _ := dna.Model(model, rmgaps)
		e.call("dna.DistModel.InitModel+Distance", func() {
			if m2.InitModel(al, w, gamma, alpha) != nil {
				return
			}
			s1, _ := m2.Sequence(0)
			s2, _ := m2.Sequence(len(in.Seqs) - 1)
			m2.Distance(s1, s2, w)
			// the encoded rows belong to the model: writing to them must not reach the alignment
			for i := range s1 {
				s1[i] = 0
			}
		})
		e.argFloats("dna.DistModel.InitModel+Distance", keep, w)
		e.call("dna.BuildWeightsGamma", func() {
			if L > 1 {
				dna.BuildWeightsGamma(al)
			}
		})
		e.call("dna.BuildWeightsDirichlet", func() {
			if L >= 3 {
				dna.BuildWeightsDirichlet(al)
			}
		})
		if in.nonTrivial() {
			c.NonTrivial(in.key(), model, fmt.Sprint(rmgaps, gamma, alpha, cpus, w, ranges))
		}
		c.Note("DistMatrix(%s, cpus=%d) err=%v, input and weights intact", model, cpus, derr)
		return
	}
	// ---- protein maximum likelihood distances
	in := genInput(r, "aa", false, true, 2)
	if len(in.Seqs) > 5 {
		in.Seqs, in.Names, in.Comments = in.Seqs[:5], in.Names[:5], in.Comments[:5]
	}
	L := len(in.Seqs[0])
	al := in.align()
	e := &env{c: c, r: r, ws: []*watcher{watch("alignment", al)}}
	pm := protModels[r.Intn(len(protModels))]
	modelfreqs := r.Chance(0.6)
	gamma := r.Chance(0.4)
	alpha := r.PickF([]float64{0.5, 1, 2})
	rmgaps := r.Chance(0.4)
	w := genWeights(r, L)
	keep := cpFloats(w)
	c.Input(map[string]interface{}{"input": in, "protmodel": pm, "modelfreqs": modelfreqs, "gamma": gamma, "alpha": alpha, "rmgaps": rmgaps, "weights": w})
	m, err := protein.NewProtDistModel(pm, modelfreqs, gamma, alpha, rmgaps)
	if err != nil {
		panic("harness: " + err.Error())
	}
	c.Checkpoint()
	var ierr error
	e.call("protein.InitModel", func() {
		if modelfreqs {
			ierr = m.InitModel(nil, nil)
		} else {
			ierr = m.InitModel(al, w)
		}
	})
	e.argFloats("protein.InitModel", keep, w)
	if ierr != nil {
		c.Count("protein-init-error")
		return
	}
	var merr error
	if e.call("protein.MLDist", func() { _, _, _, merr = m.MLDist(al, w) }) {
		if merr != nil {
			c.Count("mldist-error")
		} else {
			c.Count(fmt.Sprintf("prot-model:%d", pm))
		}
	}
	e.argFloats("protein.MLDist", keep, w)
	if w != nil {
		sel := make([]bool, L)
		for i := range sel {
			sel[i] = r.Chance(0.8)
		}
		e.call("protein.JC69Dist", func() { m.JC69Dist(al, w, sel) })
		e.argFloats("protein.JC69Dist", keep, w)
	}
	if in.nonTrivial() {
		c.NonTrivial(in.key(), fmt.Sprint(pm, modelfreqs, gamma, alpha, rmgaps, w))
	}
	c.Note("MLDist(model %d) err=%v, input and weights intact", pm, merr)
}

// ======================================================================= aligner / phaser / ORF

var pwOps = []string{"NewPwAligner+Alignment(SW)", "NewPwAligner+Alignment(ATG)", "NewPwAligner+Alignment(fails midway)", "LongestORF(forward)", "LongestORF(both strands)",
	"Phase(translate)", "Phase(nt)", "CodonAlign", "seqbag.Sequences/SequencesChan"}

// resultOwns checks that a returned sequence owns its data: no shared cell, and mutating it
// in place leaves every watched input intact.
func (e *env) resultOwns(op string, st *store, q align.Sequence, alpha int) {
	if q == nil {
		return
	}
	if d := st.sharedSeq(q); d != "" {
		e.c.Failf(op+":result-shares-storage", "%s: %s", op, d)
	}
	did := mutateSeq(e.c, e.r, q, alpha)
	for _, w := range e.ws {
		if d := w.recheck(); d != "" {
			e.c.Failf(op+":result-mutation-changed-input", "after %v on the sequence returned by %s:\n%s", did, op, d)
		}
	}
	e.c.Count("owns:" + op)
}

func runPw(c *mon.Case) {
	r := c.R
	seedGoalign(r)
	switch c.Idx % 4 {
	case 0, 1:
		runAligner(c, r)
	case 2:
		runOrfPhase(c, r, false)
	case 3:
		runOrfPhase(c, r, true)
	}
}

func runAligner(c *mon.Case, r *gen.Rand) {
	kind := randKind(r)
	core := "ACGT"
	if kind == "aa" {
		core = gen.AaCore
	} else if r.Chance(0.3) {
		core = "ACGTRYSWKMBVHDN"
	}
	s1 := r.Str(r.Range(1, 40), core)
	b := []byte(s1)
	for i := range b {
		if r.Chance(0.2) {
			b[i] = core[r.Intn(len(core))]
		}
	}
	s2 := r.Str(r.Intn(6), core) + string(b) + r.Str(r.Intn(6), core)
	if r.Chance(0.3) && len(s2) > 4 {
		p := r.Intn(len(s2) - 2)
		s2 = s2[:p] + s2[p+2:]
	}
	if r.Chance(0.2) {
		s2 = strings.ToLower(s2)
	}
	mode := "ok"
	switch r.Intn(10) {
	case 0: // a symbol without a column in the substitution matrix, met after the first sequence was converted
		p := r.Intn(len(s2) + 1)
		s2 = s2[:p] + "-" + s2[p:]
		mode = "fails midway"
	case 1:
		p := r.Intn(len(s1) + 1)
		s1 = s1[:p] + "?" + s1[p:]
		mode = "fails midway"
	case 2:
		if r.Bool() {
			s1 = ""
		} else {
			s2 = ""
		}
		mode = "empty"
	}
	algo, aname := align.ALIGN_ALGO_SW, "SW"
	if r.Bool() {
		algo, aname = align.ALIGN_ALGO_ATG, "ATG"
	}
	custom := r.Chance(0.4)
	c.Input(map[string]interface{}{"seq1": s1, "seq2": s2, "algo": aname, "custom-scores": custom, "mode": mode})
	q1 := align.NewSequence("first", []uint8(s1), "c1")
	q2 := align.NewSequence("second", []uint8(s2), "")
	e := &env{c: c, r: r, ws: []*watcher{watchSeq("seq1", q1), watchSeq("seq2", q2)}}
	st := storeOfSeq(q1)
	st.addSeq(q2, 1)
	op := "NewPwAligner+Alignment(" + aname + ")"
	if mode == "fails midway" {
		op = "NewPwAligner+Alignment(fails midway)"
	}
	var res align.Alignment
	var err error
	var pa align.PairwiseAligner
	okc := e.call(op, func() {
		pa = align.NewPwAligner(q1, q2, algo)
		if custom {
			pa.SetScore(float64(r.Range(1, 4)), -float64(r.Range(0, 3)))
			pa.SetGapOpenScore(-float64(r.Range(1, 6)))
			pa.SetGapExtendScore(-0.5)
		}
		res, err = pa.Alignment()
		pa.AlignmentStr()
		pa.MaxScore()
	})
	if mode == "empty" {
		if !okc {
			c.Count("aligner-empty-sequence:panicked")
		} else {
			c.Count("aligner-empty-sequence:returned")
		}
	}
	if mode == "fails midway" {
		if err != nil {
			c.Count("aligner-failed-midway:" + aname)
		} else {
			c.Count("aligner-did-not-fail")
		}
	}
	if okc && err == nil && res != nil {
		if d := st.shared(res); d != "" {
			c.Failf(op+":result-shares-storage", "%s", d)
		}
		did := mutate(c, r, res, r.Range(1, 4), "copy")
		for _, w := range e.ws {
			if d := w.recheck(); d != "" {
				c.Failf(op+":result-mutation-changed-input", "after %v on the returned alignment:\n%s", did, d)
			}
		}
		// the aligned rows exposed by the aligner
		for _, b := range [][]uint8{pa.Seq1Ali(), pa.Seq2Ali()} {
			if _, sh := st.sharesBuf(b); sh {
				c.Failf(op+":result-shares-storage", "Seq1Ali/Seq2Ali uses the buffer of an input sequence")
			}
		}
		c.Count("owns:" + op)
	}
	if s1 != s2 && len(s1) > 1 && len(s2) > 1 {
		c.NonTrivial(s1, s2, aname, fmt.Sprint(custom))
	}
	c.Note("%s mode=%s err=%v, both sequences intact", op, mode, err)
}

func drain(ch chan align.PhasedSequence) []align.PhasedSequence {
	var out []align.PhasedSequence
	for p := range ch {
		out = append(out, p)
	}
	return out
}

func runOrfPhase(c *mon.Case, r *gen.Rand, phase bool) {
	rev := r.Bool()
	orf, in := genCoding(r, rev)
	givenOrfs := phase && r.Chance(0.6)
	if !givenOrfs { // the reference is then taken from the sequences: keep them upper case
		for i := range in.Seqs {
			in.Seqs[i] = strings.ToUpper(in.Seqs[i])
		}
	}
	junk := ""
	if phase && givenOrfs && r.Chance(0.2) {
		// a sequence that aligns with no reference at all (the phaser reports it as removed): what comes back for it
		// must own its data like every other result
		// ... or whose only hit starts in its last one or two nucleotides (nothing left to translate)
		junk = r.PickStr([]string{"CCCCCCCCCCCC", "CCCCCCCCCCCCCCCCCCCCC", "GGGGGGGGGGGG", "CCCCCCCCAT", "CCCCCCCCCCCA", "GGGGGGGGGGGATG"})
		in.Names = append(in.Names, "junk")
		in.Seqs = append(in.Seqs, junk)
		in.Comments = append(in.Comments, "")
		c.Count("phase:junk-sequence")
	}
	seqs := in.bag()
	e := &env{c: c, r: r, ws: []*watcher{watch("sequences", seqs)}}
	st := storeOf(seqs)

	if !phase {
		c.Input(map[string]interface{}{"input": in, "reverse": rev, "embedded-orf": orf})
		op := "LongestORF(forward)"
		if rev {
			op = "LongestORF(both strands)"
		}
		var res align.Sequence
		var err error
		if e.call(op, func() { res, err = seqs.LongestORF(rev) }) && err == nil {
			c.Count("orf-found")
			e.resultOwns(op, st, res, align.NUCLEOTIDS)
		}
		// the accessors that hand out the row objects are not copies; using them read-only changes nothing
		e.call("seqbag.Sequences/SequencesChan", func() {
			for _, q := range seqs.Sequences() {
				q.Length()
			}
			for q := range seqs.SequencesChan() {
				q.Name()
			}
		})
		// CodonAlign: protein alignment + these nucleotide sequences
		prot := align.NewAlign(align.AMINOACIDS)
		for i, s := range in.Seqs {
			q := align.NewSequence(in.Names[i], []uint8(s), "")
			tr, terr := q.Translate(0, align.GENETIC_CODE_STANDARD)
			if terr != nil {
				return
			}
			aa := tr.Sequence()
			if i > 0 && prot.Length() > 0 {
				for len(aa) < prot.Length() {
					aa += "-"
				}
				aa = aa[:prot.Length()]
			}
			prot.AddSequence(in.Names[i], aa, "")
		}
		e.ws = append(e.ws, watch("protein alignment", prot))
		var ca align.Alignment
		var cerr error
		if e.call("CodonAlign", func() {
			x, er := prot.CodonAlign(seqs)
			cerr = er
			if er == nil {
				ca = x
			}
		}) && cerr == nil && ca != nil {
			if d := st.shared(ca); d != "" {
				c.Failf("CodonAlign:result-shares-storage", "%s", d)
			}
			did := mutate(c, r, ca, r.Range(1, 3), "copy")
			for _, w := range e.ws {
				if d := w.recheck(); d != "" {
					c.Failf("CodonAlign:result-mutation-changed-input", "after %v on the codon alignment:\n%s", did, d)
				}
			}
			c.Count("owns:CodonAlign")
		}
		c.NonTrivial(in.key(), fmt.Sprint(rev))
		c.Note("%s err=%v, sequences intact", op, err)
		return
	}

	// ---- Phase
	translate := r.Chance(0.6)
	cutend := r.Bool()
	cpus := r.PickInt([]int{1, 1, 2, 4})
	custom := r.Chance(0.3)
	var orfs align.SeqBag
	orfDesc := "nil (longest ORF of the sequences)"
	if givenOrfs {
		orfs = align.NewSeqBag(align.NUCLEOTIDS)
		orfs.AddSequence("orf0", orf, "reference")
		if r.Chance(0.3) {
			orfs.AddSequence("orf1", genOrf(r, r.Range(4, 12)), "")
		}
		orfDesc = "nucleotide references"
		if translate && r.Chance(0.3) { // amino acid references
			aa := align.NewSeqBag(align.AMINOACIDS)
			for _, q := range orfs.Sequences() {
				tr, _ := q.Translate(0, align.GENETIC_CODE_STANDARD)
				aa.AddSequence(q.Name(), strings.TrimRight(tr.Sequence(), "*"), "")
			}
			aa.AutoAlphabet()
			if aa.Alphabet() == align.AMINOACIDS {
				orfs = aa
				orfDesc = "amino acid references"
			}
		}
		if translate && r.Chance(0.12) {
			// protein references made of letters that are also nucleotide codes, DECLARED as protein by the caller:
			// a query must not touch that declaration (alignment errors are fine, they are not C19's business)
			aa := align.NewSeqBag(align.AMINOACIDS)
			aa.AddSequence("orfamb", "M"+r.Str(r.Range(6, 14), "KVDGSHWRYATCN"), "")
			orfs = aa
			orfDesc = "amino acid references (ambiguous letters, declared protein)"
		}
		e.ws = append(e.ws, watch("reference ORFs", orfs))
		ost := storeOf(orfs)
		for k, v := range ost.cells {
			st.cells[k] = 100 + v
		}
		for k, v := range ost.objs {
			st.objs[k] = 100 + v
		}
	}
	c.Input(map[string]interface{}{"input": in, "reverse": rev, "orfs": orfDesc, "embedded-orf": orf, "translate": translate, "cutend": cutend, "cpus": cpus, "custom-scores": custom})
	// every sequence must hold an upper case start codon on a strand the phaser looks at: then at least
	// one alignment has a positive score and the phaser has a best hit to report
	for _, s := range in.Seqs {
		if !strings.Contains(s, "ATG") && s != junk {
			c.Count("phase-skipped:no-start-codon")
			return
		}
	}
	ph := align.NewPhaser()
	ph.SetLenCutoff(r.PickF([]float64{0, 0.5, 0.8}))
	ph.SetMatchCutoff(r.PickF([]float64{0, 0.5, 0.8}))
	ph.SetReverse(rev)
	ph.SetCutEnd(cutend)
	ph.SetCpus(cpus)
	ph.SetTranslate(translate, r.Intn(3))
	if custom {
		ph.SetAlignScores(float64(r.Range(1, 3)), -float64(r.Range(1, 3)))
		ph.SetGapOpen(-float64(r.Range(2, 8)))
		ph.SetGapExtend(-0.5)
	}
	op := "Phase(nt)"
	if translate {
		op = "Phase(translate)"
	}
	c.Checkpoint()
	var out []align.PhasedSequence
	var err error
	okc := e.call(op, func() {
		ch, er := ph.Phase(orfs, seqs)
		err = er
		if er == nil {
			out = drain(ch)
		}
	})
	if !okc || err != nil {
		c.Count("phase-error")
		return
	}
	c.Count(fmt.Sprintf("phase-cpus:%d", cpus))
	c.Count("phase-orfs:" + orfDesc)
	c.Add("phased-sequences", len(out))
	for _, p := range out {
		if p.Err != nil {
			c.Count("phased-with-error")
			continue
		}
		if p.Removed {
			c.Count("phased-removed")
		}
		for _, f := range []struct {
			n string
			q align.Sequence
		}{{"NtSeq", p.NtSeq}, {"CodonSeq", p.CodonSeq}, {"AaSeq", p.AaSeq}} {
			e.resultOwns(op+"."+f.n, st, f.q, align.NUCLEOTIDS)
		}
		if p.Ali != nil {
			if d := st.shared(p.Ali); d != "" {
				c.Failf(op+".Ali:result-shares-storage", "%s", d)
			}
			did := mutate(c, r, p.Ali, 2, "copy")
			for _, w := range e.ws {
				if d := w.recheck(); d != "" {
					c.Failf(op+".Ali:result-mutation-changed-input", "after %v on the pairwise alignment of a phased sequence:\n%s", did, d)
				}
			}
		}
	}
	c.NonTrivial(in.key(), orfDesc, fmt.Sprint(rev, translate, cutend, cpus, custom))
	c.Note("%s -> %d phased sequences, sequences and references intact", op, len(out))
}

// ======================================================================= copy producers

// owners: results documented as owning their data
var ownerOps = []string{"Clone", "CloneSeqBag", "Sequence.Clone", "SubAlign", "SelectSites", "RandSubAlign(consecutive)", "RandSubAlign(sampled)", "Transpose", "BuildBootstrap",
	"Unalign", "Consensus", "Split"}

// sharers: results that hand over the original's rows by construction; only the call itself is checked
var sharerOps = []string{"Sample", "Rarefy", "SampleSeqBag", "RarefySeqBag", "Append(argument)", "Concat(argument)"}

type produced struct {
	op   string
	objs []align.SeqBag
	desc string
}

func runCopies(c *mon.Case) {
	r := c.R
	seedGoalign(r)
	in := genInput(r, randKind(r), false, false, 1)
	asBag := r.Chance(0.15)
	var orig align.SeqBag
	var al align.Alignment
	if asBag {
		bi := genBag(r, in.Kind)
		in = bi
		orig = in.bag()
	} else {
		al = in.align()
		orig = al
		if r.Chance(0.2) {
			al.IgnoreIdentical(r.PickInt([]int{align.IGNORE_NAME, align.IGNORE_SEQUENCE}))
		}
	}
	n := orig.NbSequences()
	L := len(in.Seqs[0])
	e := &env{c: c, r: r, ws: []*watcher{watch("original", orig)}}

	// ---- pick the producer
	var p produced
	ops := ownerOps
	if asBag {
		ops = []string{"CloneSeqBag", "Sequence.Clone", "Unalign"}
	}
	op := ops[(c.Idx/2)%len(ops)]
	if asBag {
		op = ops[r.Intn(len(ops))]
	}
	p.op = op
	var seqCopy align.Sequence
	var seqOrig align.Sequence
	okc := false
	switch op {
	case "Clone":
		okc = e.call(op, func() {
			x, err := al.Clone()
			if err == nil {
				p.objs = []align.SeqBag{x}
			}
		})
	case "CloneSeqBag":
		okc = e.call(op, func() {
			x, err := orig.CloneSeqBag()
			if err == nil {
				p.objs = []align.SeqBag{x}
			}
		})
	case "Sequence.Clone":
		i := r.Intn(n)
		seqOrig, _ = orig.Sequence(i)
		okc = e.call(op, func() { seqCopy = seqOrig.Clone() })
		p.desc = fmt.Sprintf("row %d", i)
	case "SubAlign":
		st, ln := 0, L
		switch r.Intn(5) {
		case 0: // the whole alignment
		case 1:
			st, ln = 0, r.Range(0, L)
		case 2:
			st = r.Range(0, L)
			ln = L - st
		default:
			st = r.Range(0, L)
			ln = r.Range(0, L-st)
		}
		p.desc = fmt.Sprintf("start=%d length=%d of %d", st, ln, L)
		okc = e.call(op, func() {
			x, err := al.SubAlign(st, ln)
			if err == nil {
				p.objs = []align.SeqBag{x}
			}
		})
		if st == 0 && ln == L {
			c.Count("SubAlign:whole")
		}
	case "SelectSites":
		var sites []int
		switch r.Intn(4) {
		case 0: // identity selection
			for i := 0; i < L; i++ {
				sites = append(sites, i)
			}
			c.Count("SelectSites:identity")
		case 1: // with repeats, unordered
			for i, k := 0, r.Range(1, L+3); i < k; i++ {
				sites = append(sites, r.Intn(L))
			}
		default:
			for i := 0; i < L; i++ {
				if r.Bool() {
					sites = append(sites, i)
				}
			}
		}
		keep := cpInts(sites)
		p.desc = fmt.Sprintf("sites=%v", sites)
		okc = e.call(op, func() {
			x, err := al.SelectSites(sites)
			if err == nil {
				p.objs = []align.SeqBag{x}
			}
		})
		e.argInts(op, keep, sites)
	case "RandSubAlign(consecutive)", "RandSubAlign(sampled)":
		ln := r.PickInt([]int{1, L, r.Range(1, L), r.Range(1, L)})
		p.desc = fmt.Sprintf("length=%d of %d", ln, L)
		if ln == L {
			c.Count(op + ":whole")
		}
		okc = e.call(op, func() {
			x, err := al.RandSubAlign(ln, op == "RandSubAlign(consecutive)")
			if err == nil {
				p.objs = []align.SeqBag{x}
			}
		})
	case "Transpose":
		okc = e.call(op, func() {
			x, err := al.Transpose()
			if err == nil {
				p.objs = []align.SeqBag{x}
			}
		})
	case "BuildBootstrap":
		frac := r.PickF([]float64{1, 1, 0.5, 0.9})
		p.desc = fmt.Sprintf("frac=%v", frac)
		okc = e.call(op, func() { p.objs = []align.SeqBag{al.BuildBootstrap(frac)} })
	case "Unalign":
		okc = e.call(op, func() { p.objs = []align.SeqBag{orig.Unalign()} })
	case "Consensus":
		okc = e.call(op, func() { p.objs = []align.SeqBag{al.Consensus(r.Bool(), r.Bool())} })
		if n == 1 {
			c.Count("Consensus:single-row")
		}
	case "Split":
		ps := align.NewPartitionSet(L)
		var perr error
		if L >= 2 && r.Bool() { // two ranges
			cut := r.Range(1, L-1)
			perr = ps.AddRange("p1", "m1", 0, cut-1, 1)
			if perr == nil {
				perr = ps.AddRange("p2", "m2", cut, L-1, 1)
			}
			p.desc = fmt.Sprintf("partitions [0,%d) [%d,%d)", cut, cut, L)
		} else if L >= 2 { // codon like positions
			k := r.Range(2, 3)
			for j := 0; j < k && perr == nil; j++ {
				if j <= L-1 {
					perr = ps.AddRange(fmt.Sprintf("pos%d", j), "m", j, L-1, k)
				}
			}
			p.desc = fmt.Sprintf("partitions modulo %d", k)
		} else {
			perr = fmt.Errorf("too short")
		}
		if perr != nil || ps.NPartitions() < 2 {
			c.Count("split-skipped")
			return
		}
		psBefore := ps.String()
		okc = e.call(op, func() {
			xs, err := al.Split(ps)
			if err == nil {
				for _, x := range xs {
					p.objs = append(p.objs, x)
				}
			}
		})
		if ps.String() != psBefore || ps.AliLength() != L {
			c.Failf("Split:modified-argument", "the partition set changed: %q became %q", psBefore, ps.String())
		}
	}
	c.Input(map[string]interface{}{"input": in, "seqbag": asBag, "op": op, "args": p.desc})
	if !okc {
		return
	}

	// ---- the lenient producers are exercised in every case (call only)
	if !asBag && n >= 1 {
		runSharers(e, al, in)
	} else if asBag {
		runBagSharers(e, orig, in)
	}

	if op == "Sequence.Clone" {
		if seqCopy == nil {
			return
		}
		st := storeOf(orig)
		if d := st.sharedSeq(seqCopy); d != "" {
			c.Failf(op+":shares-storage", "%s (%s)", d, p.desc)
		}
		if takeSeq(seqCopy).diff(takeSeq(seqOrig)) != "" {
			c.Count("clone-differs") // equality of the copy is C01/C04's business
		}
		did := mutateSeq(c, r, seqCopy, orig.Alphabet())
		for _, w := range e.ws {
			if d := w.recheck(); d != "" {
				c.Failf(op+":copy-mutation-changed-original", "after %v on the clone of %s:\n%s", did, p.desc, d)
			}
		}
		wc := watchSeq("clone", seqCopy)
		did = mutate(c, r, orig, r.Range(1, 4), "original")
		if d := wc.recheck(); d != "" {
			c.Failf(op+":original-mutation-changed-copy", "after %v on the original:\n%s", did, d)
		}
		c.Count("owns:" + op)
		if in.nonTrivial() {
			c.NonTrivial(in.key(), op, p.desc)
		}
		return
	}
	if len(p.objs) == 0 {
		c.Count("producer-error:" + op)
		return
	}

	if e.ownership(op, p.desc, orig, p.objs) && in.nonTrivial() {
		c.NonTrivial(in.key(), op, p.desc)
	}
}

// ownership decides "the results own their data": statically (no byte cell, no row object in
// common with the original, nor among the results of one call) and dynamically (in-place
// operations on a result leave the original intact, then the other way round).
func (e *env) ownership(op, desc string, orig align.SeqBag, objs []align.SeqBag) bool {
	c, r := e.c, e.r
	st := storeOf(orig)
	for k, x := range objs {
		if x == nil {
			continue
		}
		if d := st.shared(x); d != "" {
			c.Failf(op+":shares-storage", "%s [result %d, %s]\noriginal %s", d, k, desc, e.ws[0].last.show())
		}
		if x == orig {
			c.Failf(op+":shares-storage", "%s returned the receiver itself", op)
		}
	}
	for k := 1; k < len(objs); k++ {
		if d := storeOf(objs[0]).shared(objs[k]); d != "" {
			c.Failf(op+":shares-storage", "results 0 and %d of the same call: %s", k, d)
		}
	}
	target := objs[r.Intn(len(objs))]
	if target.NbSequences() > 0 {
		did := mutate(c, r, target, r.Range(2, 5), "copy")
		for _, w := range e.ws {
			if d := w.recheck(); d != "" {
				c.Failf(op+":copy-mutation-changed-original", "%s [%s]; in-place operations on the result: %v\n%s", op, desc, did, d)
			}
		}
	}
	var cws []*watcher
	for k, x := range objs {
		cws = append(cws, watch(fmt.Sprintf("result %d of %s", k, op), x))
	}
	did := mutate(c, r, orig, r.Range(2, 5), "original")
	for _, w := range cws {
		if d := w.recheck(); d != "" {
			c.Failf(op+":original-mutation-changed-copy", "%s [%s]; in-place operations on the original: %v\n%s", op, desc, did, d)
		}
	}
	c.Count("owns:" + op)
	c.Note("%s [%s]: input intact, result shares nothing, %v on the original left the result intact", op, desc, did)
	return !c.Failed()
}

func runSharers(e *env, al align.Alignment, in *input) {
	c, r := e.c, e.r
	n := al.NbSequences()
	st := storeOf(al)
	observe := func(op string, x align.SeqBag) {
		if x != nil && st.shared(x) != "" {
			c.Count("shares-rows-by-construction:" + op)
		}
	}
	nb := r.Range(0, n+1)
	e.call("Sample", func() {
		x, err := al.Sample(nb)
		if err == nil {
			observe("Sample", x)
		}
	})
	counts := map[string]int{}
	tot := 0
	for _, nm := range in.Names {
		if r.Chance(0.8) {
			counts[nm] = r.Range(1, 5)
			tot += counts[nm]
		}
	}
	keep := fmt.Sprint(counts)
	e.call("Rarefy", func() {
		x, err := al.Rarefy(r.Range(0, tot), counts)
		if err == nil {
			observe("Rarefy", x)
		}
	})
	if fmt.Sprint(counts) != keep {
		c.Failf("Rarefy:modified-argument", "the counts map changed: %s became %v", keep, counts)
	}
	// Append / Concat: the argument is only read
	other := align.NewAlign(al.Alphabet())
	for i := 0; i < r.Range(1, 3); i++ {
		other.AddSequence(fmt.Sprintf("other%d", i), r.Str(al.Length(), "ACGT"), "oc")
	}
	e.ws = append(e.ws, watch("argument", other))
	if cl, err := al.Clone(); err == nil {
		if r.Bool() {
			e.call("Append(argument)", func() {
				if cl.Append(other) == nil {
					observe("Append", cl)
				}
			})
		} else {
			e.call("Concat(argument)", func() { cl.Concat(other) })
		}
		// the receiver of Append/Concat is a clone: whatever it became, the original is intact (checked by call)
	}
	e.ws = e.ws[:1]
}

func runBagSharers(e *env, sb align.SeqBag, in *input) {
	c, r := e.c, e.r
	st := storeOf(sb)
	e.call("SampleSeqBag", func() {
		x, err := sb.SampleSeqBag(r.Range(0, sb.NbSequences()+1))
		if err == nil && st.shared(x) != "" {
			c.Count("shares-rows-by-construction:SampleSeqBag")
		}
	})
	counts := map[string]int{}
	tot := 0
	for _, nm := range in.Names {
		counts[nm] = r.Range(1, 4)
		tot += counts[nm]
	}
	keep := fmt.Sprint(counts)
	e.call("RarefySeqBag", func() {
		x, err := sb.RarefySeqBag(r.Range(1, tot), counts)
		if err == nil && x != nil && st.shared(x) != "" {
			c.Count("shares-rows-by-construction:RarefySeqBag")
		}
	})
	if fmt.Sprint(counts) != keep {
		c.Failf("RarefySeqBag:modified-argument", "the counts map changed: %s became %v", keep, counts)
	}
}

// ======================================================================= main

func main() {
	mon.SetNote("rule", "case = generated nucleotide or protein alignment / sequence set (1..7 rows; lengths on the writers' line widths 50/60/80 and small ones; residue mixes with IUPAC codes, lower case, gaps, N/X, * . ?, U; hostile names; comments; related rows with leading/trailing/internal gap runs, gap-only columns) x one family of entry points: every entry point is called between two deep snapshots (names, residues as fresh strings through IterateAll, Iterate, by-index and by-name accessors, comments, Length, alphabet, VerifInvariants) of the receiver and of every argument (other alignments, sequences, []int sites, weights, count maps, count profiles, partition sets). Results documented as owning their data are checked statically (no byte cell over the capacity of any row buffer and no row object in common with the original, compared by address) and dynamically (2..5 random in-place operations on the result, including direct writes into the slices handed out by SequenceChar/GetSequenceChar*/IterateChar, then re-snapshot of the original; then the same on the original and re-snapshot of the result). Non-trivial = at least 2 rows, 2 columns and two different rows (aligner: two different sequences longer than 1); distinct = (input, entry point, arguments).")
	mon.SetNote("assumptions", "the snapshot trusts string(...) conversions to copy;; Sample, Rarefy, SampleSeqBag, RarefySeqBag and Append hand over the original's row buffers by construction: the statement names clones, sub-alignments and site selections as owners, so for these only the call itself is checked (sharing is counted as shares-rows-by-construction:*);; Sequences(), Sequence(i), GetSequenceByName, SequencesChan, SequenceChar, GetSequenceChar*, IterateChar are accessors documented as exposing the internal rows, not copies;; a panic or an error of an entry point (e.g. pairwise aligner on an empty sequence, statistics on a site outside the alignment) is not a C19 violation: the input must still be intact afterwards and the event is counted (panicked:*);; in-place operations that fail or panic on a mutated copy are skipped and counted (other properties decide them);; the equality of a copy with its source is C01/C04's business, only its independence is decided here;; Phase is only driven with sequences holding an upper case start codon (otherwise the phaser has no best hit to report, which is C16's business)")
	mon.SetNote("exhaustive_subspaces", "every entry point of each family is called in every case of that family (writers: 7 writers x 8 Phylip option sets; statistics: 33 entry points; copy producers: 12 owners in rotation + 6 sharers)")
	for _, o := range writerOps {
		mon.Floor("op:"+o, 4000)
	}
	mon.Floor("op:draw.PngLayout.DrawAlign", 4000)
	mon.Floor("op:draw.BioJSLayout.DrawAlign", 500)
	for _, o := range statOps {
		mon.Floor("op:"+o, 4000)
	}
	for _, o := range distOps {
		mon.Floor("op:"+o, 600)
	}
	for _, m := range ntModels {
		mon.Floor("dna-model:"+m, 200)
	}
	for _, m := range protModels {
		mon.Floor(fmt.Sprintf("prot-model:%d", m), 100)
	}
	for _, k := range []string{"1", "2", "4", "8"} {
		mon.Floor("dna-cpus:"+k, 300)
	}
	for _, o := range pwOps {
		mon.Floor("op:"+o, 400)
	}
	mon.Floor("aligner-failed-midway:ATG", 150)
	mon.Floor("aligner-failed-midway:SW", 150)
	for _, k := range []string{"1", "2", "4"} {
		mon.Floor("phase-cpus:"+k, 150)
	}
	for _, o := range ownerOps {
		mon.Floor("op:"+o, 1500)
		mon.Floor("owns:"+o, 1200)
	}
	for _, o := range sharerOps {
		mon.Floor("op:"+o, 2000)
	}
	for _, o := range []string{"owns:LongestORF(forward)", "owns:LongestORF(both strands)", "owns:Phase(translate).NtSeq", "owns:Phase(translate).CodonSeq", "owns:Phase(nt).NtSeq", "owns:Phase(nt).CodonSeq",
		"owns:CodonAlign", "owns:NewPwAligner+Alignment(SW)", "owns:NewPwAligner+Alignment(ATG)"} {
		mon.Floor(o, 400)
	}
	for _, m := range mutatorNames {
		if m != "Clear" {
			mon.Floor("mut:"+m, 500)
			mon.Floor("mut-copy:"+m, 100)
			mon.Floor("mut-original:"+m, 100)
		}
	}
	mon.Floor("phase:junk-sequence", 100)
	mon.Floor("phase-orfs:amino acid references (ambiguous letters, declared protein)", 40)
	mon.Floor("stats-unknown-alphabet", 100)
	mon.Floor("dist-unknown-alphabet", 100)
	mon.Floor("SubAlign:whole", 20)
	mon.Floor("SelectSites:identity", 20)
	mon.Main("C19", []mon.Sub{
		{Name: "witness", Quick: len(witnesses), Thorough: len(witnesses), Run: runWitness},
		{Name: "writers", Quick: 15000, Thorough: 300000, Run: runWriters},
		{Name: "stats", Quick: 15000, Thorough: 300000, Run: runStats},
		{Name: "dist", Quick: 10000, Thorough: 200000, Run: runDist},
		{Name: "pw", Quick: 12000, Thorough: 240000, Run: runPw},
		{Name: "copies", Quick: 60000, Thorough: 1500000, Run: runCopies},
	})
}
