// Generators of the C02 monitor: alignments whose names and residues are
// representable in the formats, sitting on the wrap boundaries of the writers.
package main

import (
	"strings"
	"unicode"
	"unicode/utf8"

	"verif/lib/fmtio"
	"verif/lib/gen"
)

// Lengths on / around every writer line or block width (10, 50, 60, 80 and multiples).
var wrapLens = []int{1, 2, 3, 9, 10, 11, 19, 20, 21, 29, 30, 31, 49, 50, 51, 59, 60, 61, 69, 70, 71, 79, 80, 81, 99, 100, 101, 119, 120, 121,
	149, 150, 151, 159, 160, 161, 179, 180, 181, 239, 240, 241, 299, 300, 301, 480, 600}

func genLen(r *gen.Rand) int {
	switch r.Intn(10) {
	case 0:
		return r.Range(1, 130)
	case 1:
		// an exact multiple of a width, or one more / one less
		w := r.PickInt([]int{10, 50, 60, 80})
		return w*r.Range(1, 5) + r.Range(-1, 1)
	default:
		return r.PickInt(wrapLens)
	}
}

// printable, non blank ASCII
var asciiPrint = func() string {
	b := []byte{}
	for c := byte(0x21); c <= 0x7e; c++ {
		b = append(b, c)
	}
	return string(b)
}()

// the same without the characters that are delimiters of one format or another
// ('[' ']' ';' '=' of the Nexus / Stockholm lexers), so valid everywhere when not leading with '>' or '#'
var asciiCommon = strings.Map(func(r rune) rune {
	if strings.ContainsRune("[];=", r) {
		return -1
	}
	return r
}, asciiPrint)

const alnum = "abcdefghijklmnopqrstuvwxyzABCDEFGHIJKLMNOPQRSTUVWXYZ0123456789_"

var unicodeBits = []string{"é", "ü", "ß", "Ω", "ж", "名", "前", "é", "ñ", "ø", "𝛼", "€"}

var nameProfiles = []string{"plain", "short-hostile", "strict-boundary", "long", "numeric", "delimiters", "unicode", "residue-like", "shared-prefix", "one-char"}

func genName(r *gen.Rand, prof string, i int) string {
	switch prof {
	case "short-hostile":
		s := r.Str(r.Range(1, 10), asciiCommon)
		for s[0] == '>' || s[0] == '#' {
			s = string(r.Pick(alnum)) + s[1:]
		}
		return s
	case "strict-boundary":
		// exactly 10 (the width of the strict Phylip name field), 9 or 11 characters
		k := r.PickInt([]int{10, 10, 10, 9, 11})
		if r.Bool() {
			return r.Str(k, alnum)
		}
		s := r.Str(k, asciiCommon)
		for s[0] == '>' || s[0] == '#' {
			s = string(r.Pick(alnum)) + s[1:]
		}
		return s
	case "long":
		return r.Str(r.PickInt([]int{11, 12, 20, 30, 40, 64}), alnum+"|:./-")
	case "numeric":
		switch r.Intn(6) {
		case 0:
			return gen.Itoa(r.Intn(100))
		case 1:
			return "000" + gen.Itoa(r.Intn(1000))
		case 2:
			return "+" + gen.Itoa(r.Intn(50))
		case 3:
			return "-" + gen.Itoa(r.Range(1, 50))
		case 4:
			return r.Str(r.Range(1, 10), "0123456789")
		default:
			return gen.Itoa(r.Intn(10)) + "e" + gen.Itoa(r.Intn(10))
		}
	case "delimiters":
		s := r.Str(r.Range(1, 10), "[];=>#ab1")
		if r.Chance(0.3) {
			s = string(r.Pick(">#")) + s
		}
		return s
	case "unicode":
		s := ""
		for k, n := 0, r.Range(1, 10); k < n; k++ {
			if r.Chance(0.6) {
				s += r.PickStr(unicodeBits)
			} else {
				s += string(r.Pick(alnum))
			}
		}
		return s
	case "residue-like":
		return r.PickStr([]string{"A", "ACGT", "-", "*", "?", "N", "--", "a>b", "x.y", "acgt", "ARND", "A-C", "X", "n", "-A", "*?", "..", "."})
	case "shared-prefix":
		return r.PickStr([]string{"seq", "seq1", "seq10", "seq100", "seq_0001", "seq_0002", "s", "se", "x_0001", "x_0002", "x", "seq1_0001", "Seq", "SEQ"})
	case "one-char":
		return string(r.Pick(asciiCommon[:len(asciiCommon)]))
	}
	return r.PickStr([]string{"s", "seq_", "Taxon", "t"}) + gen.Itoa(i)
}

// genNames returns n pairwise distinct names.
func genNames(r *gen.Rand, n int, prof string) []string {
	out := make([]string, 0, n)
	seen := map[string]bool{}
	for tries := 0; len(out) < n; tries++ {
		p := prof
		if r.Chance(0.25) || tries > 50 {
			p = "plain"
		}
		s := genName(r, p, len(out)+tries)
		if p == "one-char" && (s[0] == '>' || s[0] == '#') {
			continue
		}
		if seen[s] || s == "" {
			continue
		}
		seen[s] = true
		out = append(out, s)
	}
	return out
}

// Residue mixes. IUPAC nucleotide codes (with U), the 20 amino acids + B Z X, both cases,
// gap '-', '*' and '?'. '.' only when asked (not representable in Nexus / Stockholm).
var ntMixes = []string{"ACGT", "ACGTN-", "ACGTURYSWKMBDHVN", "acgturyswkmbdhvn", "ACGTacgtNn-", "ACGTRYKMSWBDHVNacgtrykmswbdhvn-*?", "ACGU", "AC-*?", "A", "ACGTACGTACGT-"}
var aaMixes = []string{"ARNDCQEGHILKMFPSTWYV", "ARNDCQEGHILKMFPSTWYVBZX", "arndcqeghilkmfpstwyvbzx", "ARNDCQEGHILKMFPSTWYVarndcqeghilkmfpstwyv-", "ARNDCQEGHILKMFPSTWYVBZXbzx-*?", "EFILPQZ", "LIFE-*?", "QEL"}

type alnCase struct {
	Rows    gen.Rows `json:"rows"`
	Kind    string   `json:"kind"` // nt / aa
	Profile string   `json:"names"`
	Mix     string   `json:"mix"`
	Dots    bool     `json:"dots"`
	Shape   string   `json:"shape"`
}

func genAln(r *gen.Rand, maxRows int, allowDots bool) alnCase {
	n := r.Range(1, maxRows)
	if r.Chance(0.08) {
		n = 1
	}
	L := genLen(r)
	return genAlnShape(r, n, L, nameProfiles[r.Intn(len(nameProfiles))], allowDots && r.Chance(0.15))
}

func genAlnShape(r *gen.Rand, n, L int, prof string, dots bool) alnCase {
	a := alnCase{Profile: prof, Dots: dots}
	if r.Bool() {
		a.Kind, a.Mix = "nt", ntMixes[r.Intn(len(ntMixes))]
	} else {
		a.Kind, a.Mix = "aa", aaMixes[r.Intn(len(aaMixes))]
	}
	mix := a.Mix
	if dots {
		mix += "."
	}
	names := genNames(r, n, prof)
	a.Rows = make(gen.Rows, n)
	a.Shape = r.PickStr([]string{"random", "random", "conserved", "gap-runs", "special-rows"})
	base := r.Str(L, mix)
	for i := range a.Rows {
		var s string
		switch a.Shape {
		case "conserved":
			b := []byte(base)
			for j := range b {
				if r.Chance(0.1) {
					b[j] = r.Pick(mix)
				}
			}
			s = string(b)
		case "gap-runs":
			b := r.Bytes(L, mix)
			lead, trail := r.Intn(L/3+1), r.Intn(L/3+1)
			for j := 0; j < lead; j++ {
				b[j] = '-'
			}
			for j := 0; j < trail; j++ {
				b[L-1-j] = '-'
			}
			s = string(b)
		case "special-rows":
			switch r.Intn(5) {
			case 0:
				s = strings.Repeat("-", L)
			case 1:
				s = strings.Repeat("?", L)
			case 2:
				s = strings.Repeat("*", L)
			case 3:
				s = strings.Repeat(string(r.Pick(a.Mix)), L)
			default:
				s = r.Str(L, mix)
			}
		default:
			s = r.Str(L, mix)
		}
		a.Rows[i] = gen.Seq{Name: names[i], Seq: s}
	}
	return a
}

func validName(n string) bool {
	if n == "" || !utf8.ValidString(n) {
		return false
	}
	for _, c := range n {
		if !unicode.IsPrint(c) || unicode.IsSpace(c) || c == utf8.RuneError {
			return false
		}
	}
	return true
}

// family of a format of the table
func family(f fmtio.Format) string {
	if strings.HasPrefix(f.Name, "phylip") {
		return "phylip"
	}
	return f.Name
}

// nameRepresentable: the representability rule of the quantifier, per format (see the "assumptions" note).
func nameRepresentable(f fmtio.Format, n string) bool {
	if !validName(n) {
		return false
	}
	switch family(f) {
	case "fasta":
		return n[0] != '>'
	case "phylip":
		return !f.Strict || utf8.RuneCountInString(n) <= 10
	case "nexus":
		return !strings.ContainsAny(n, "[];=")
	case "stockholm":
		return !strings.ContainsAny(n, "[];=") && n[0] != '#' && n != "//"
	}
	return true
}

func representable(f fmtio.Format, rows gen.Rows) bool {
	fam := family(f)
	for _, s := range rows {
		if !nameRepresentable(f, s.Name) {
			return false
		}
		if (fam == "nexus" || fam == "stockholm") && strings.Contains(s.Seq, ".") {
			return false
		}
	}
	return true
}
