// C02 monitor: every alignment format round-trips losslessly through goalign's
// writers and parsers (FASTA, Phylip x strict x one-line x no-block, Nexus, Clustal,
// Stockholm), plain and through .gz / .xz files, as Phylip streams, through format
// auto-detection and through chains of conversions.
//
// Oracle: snapshot equality (names in order, residues, length, number of rows,
// detected alphabet, structural invariants) between the source alignment and what the
// parser returns for the writer's text; plus an independent reading of the writer's
// text by the reference readers of ref.go (is the text really alignment A in format F?).
package main

import (
	"bufio"
	"bytes"
	"compress/gzip"
	"fmt"
	"io"
	"os"
	"path/filepath"
	"strings"
	"unicode"

	"github.com/ulikunitz/xz"

	"github.com/evolbioinfo/goalign/align"
	"github.com/evolbioinfo/goalign/io/fasta"
	"github.com/evolbioinfo/goalign/io/phylip"
	"github.com/evolbioinfo/goalign/io/utils"

	"verif/lib/conc"
	"verif/lib/fmtio"
	"verif/lib/gen"
	"verif/lib/h"
	"verif/lib/mon"
)

func alphaName(a int) string {
	switch a {
	case align.AMINOACIDS:
		return "aa"
	case align.NUCLEOTIDS:
		return "nt"
	case align.BOTH:
		return "both"
	}
	return "unknown"
}

// sigFmt is the format part of a violation signature: the format family, "-strict" for strict Phylip
// (the one-line / no-block variants are named in the detail text, not in the signature).
func sigFmt(f fmtio.Format) string {
	if f.Strict {
		return "phylip-strict"
	}
	return family(f)
}

func clip(s string, n int) string {
	if len(s) > n {
		return s[:n] + "…"
	}
	return s
}

// mkSource builds the source alignment and detects its alphabet. ok=false when goalign itself
// cannot classify the residues (never expected with the generated mixes).
func mkSource(rows gen.Rows) (align.Alignment, bool) {
	al := h.MkAlignAuto(rows)
	a0 := al.Alphabet()
	if len(rows) > 0 && (len(rows)+len(rows[0].Seq))%5 == 2 && (a0 == align.NUCLEOTIDS || a0 == align.AMINOACIDS) {
		// one source in five was asked for the other alphabet first: a request the content does not allow is refused
		// and leaves the alignment as it was (the writers of Nexus and Clustal spell the alphabet out); a request
		// the content allows is taken back
		other := align.NUCLEOTIDS
		if a0 == align.NUCLEOTIDS {
			other = align.AMINOACIDS
		}
		if err := al.SetAlphabet(other); err == nil {
			al.SetAlphabet(a0)
		}
	}
	return al, al.Alphabet() == align.NUCLEOTIDS || al.Alphabet() == align.AMINOACIDS
}

// compare decides "same names in the same order, same residues, same length, same detected alphabet".
// stage names the path the text took (parse, unalign, file-gz, auto, stream ...).
func compare(c *mon.Case, f fmtio.Format, stage string, src gen.Rows, alpha int, got align.SeqBag, err error, text string) bool {
	fail := func(kind, format string, a ...interface{}) bool {
		c.Failf(sigFmt(f)+":"+stage+":"+kind, "format %s, %s: %s\nsource (%s) = %s\ntext written by goalign:\n%s", f.Name, stage, fmt.Sprintf(format, a...), alphaName(alpha), h.Show(src), clip(text, 1800))
		return false
	}
	if err != nil {
		return fail("error", "the parser rejects the text written by goalign's own writer: %v", err)
	}
	if got == nil {
		return fail("nil", "no alignment and no error returned")
	}
	back := h.Snap(got)
	if len(back) != len(src) || got.NbSequences() != len(src) {
		return fail("nrows", "%d rows written, %d rows read back (NbSequences=%d): %s", len(src), len(back), got.NbSequences(), h.Show(back))
	}
	for i := range src {
		if back[i].Name != src[i].Name {
			return fail("names", "row %d is named %q, read back as %q; read back = %s", i, src[i].Name, back[i].Name, h.Show(back))
		}
	}
	for i := range src {
		if back[i].Seq != src[i].Seq {
			j := 0
			for j < len(src[i].Seq) && j < len(back[i].Seq) && src[i].Seq[j] == back[i].Seq[j] {
				j++
			}
			return fail("residues", "row %d (%q): %d residues written, %d read back, first difference at column %d; read back = %s", i, src[i].Name, len(src[i].Seq), len(back[i].Seq), j, h.Show(back))
		}
	}
	if al, ok := got.(align.Alignment); ok {
		if al.Length() != len(src[0].Seq) {
			return fail("length", "Length() = %d, written %d", al.Length(), len(src[0].Seq))
		}
		if msg := h.CheckRect(al); msg != "" {
			return fail("invariants", "%s", msg)
		}
	}
	if got.Alphabet() != alpha {
		return fail("alphabet", "alphabet of the source %s, read back %s", alphaName(alpha), alphaName(got.Alphabet()))
	}
	// by-name access path
	for i := range src {
		if s, ok := got.GetSequence(src[i].Name); !ok || s != src[i].Seq {
			return fail("by-name", "GetSequence(%q) = %q,%v", src[i].Name, clip(s, 80), ok)
		}
	}
	return true
}

// wrapped tells, from the text itself, whether the writer cut at least one row into several lines / blocks.
func wrapped(f fmtio.Format, text string, n, L int) bool {
	nl := strings.Count(text, "\n")
	switch family(f) {
	case "fasta":
		return nl > 2*n
	case "phylip":
		return nl > n+1 || (L > 10 && !strings.Contains(f.Name, "noblock"))
	case "clustal":
		return nl > n+3
	}
	return false
}

// checkText reads the writer's text with the reference reader of the format.
func checkText(c *mon.Case, f fmtio.Format, src gen.Rows, alpha int, text string) bool {
	var rows gen.Rows
	var err error
	fail := func(kind, format string, a ...interface{}) bool {
		c.Failf(sigFmt(f)+":writer-text:"+kind, "format %s: %s\nsource = %s\ntext written by goalign:\n%s", f.Name, fmt.Sprintf(format, a...), h.Show(src), clip(text, 1800))
		return false
	}
	switch family(f) {
	case "fasta":
		rows, err = refFasta(text)
	case "phylip":
		var lay phylipLayout
		rows, lay, err = refPhylip(text, f.Strict)
		if err == nil {
			n := len(src)
			oneline := strings.Contains(f.Name, "oneline")
			noblock := strings.Contains(f.Name, "noblock")
			// documented meaning of the options (docs/index.md): --one-line: each sequence on one single line;
			// --no-block: no 10 character block separation; strict: sequence starts at position 11
			if oneline && lay.nonEmptyLines != n {
				return fail("one-line-option", "one-line output has %d non empty lines after the header for %d sequences", lay.nonEmptyLines, n)
			}
			if noblock && lay.blankInside {
				return fail("no-block-option", "no-block output has a blank inside the residues of a line")
			}
			if !noblock && (lay.maxChunk > 10 || lay.shortInner) {
				return fail("block-option", "blocks are not 10 residues long (longest %d, short inner block %v)", lay.maxChunk, lay.shortInner)
			}
			if f.Strict && lay.firstResCol != 11 {
				return fail("strict-option", "strict output: first residue at column %d, not 11", lay.firstResCol)
			}
		}
	case "nexus":
		var dt string
		rows, dt, err = refNexus(text)
		if err == nil {
			want := "dna"
			if alpha == align.AMINOACIDS {
				want = "protein"
			}
			if dt != want {
				return fail("datatype", "datatype=%s written for a %s alignment", dt, alphaName(alpha))
			}
		}
	case "clustal":
		rows, err = refClustal(text)
	case "stockholm":
		rows, err = refStockholm(text)
	}
	if err != nil {
		return fail("malformed", "the reference reader of the format cannot read the text: %v", err)
	}
	if !h.EqRows(rows, src) {
		return fail("content", "the text does not spell the source alignment; the reference reader gets %s", h.Show(rows))
	}
	return true
}

var policies = []int{align.IGNORE_NONE, align.IGNORE_NAME, align.IGNORE_SEQUENCE}

// roundTrip: one alignment through one format (writer -> reference reader; writer -> parser).
func roundTrip(c *mon.Case, f fmtio.Format, a alnCase, al align.Alignment, deep bool) {
	r := c.R
	alpha := al.Alphabet()
	text := f.Write(al)
	c.Count("fmt:" + f.Name)
	c.Count("fmt:" + f.Name + ":" + alphaName(alpha))
	if !checkText(c, f, a.Rows, alpha, text) {
		return
	}
	pol := policies[r.Intn(3)]
	got, err := f.Parse(strings.NewReader(text), pol, align.BOTH)
	if !compare(c, f, "parse", a.Rows, alpha, got, err, text) {
		return
	}
	n, L := len(a.Rows), len(a.Rows[0].Seq)
	w := wrapped(f, text, n, L)
	if w {
		c.Count("wrapped:" + f.Name)
	}
	fam := family(f)
	special := strings.ContainsAny(a.Rows.Key(), "-*?")
	if n >= 2 && (w || ((fam == "nexus" || fam == "stockholm") && L >= 2 && special)) {
		c.NonTrivial(f.Name, a.Rows.Key())
	}
	if !deep {
		return
	}
	// explicit alphabet (--alphabet aa|nt): the alignment is "considered as" that alphabet, nothing else changes
	if r.Chance(0.3) {
		got, err = f.Parse(strings.NewReader(text), pol, alpha)
		c.Count("explicit-alphabet:" + f.Name)
		if !compare(c, f, "parse-explicit-alphabet", a.Rows, alpha, got, err, text) {
			return
		}
	}
	// ... also when the letters would be detected as nucleotides: IUPAC nucleotide codes other than U are
	// amino acid letters too, so the override must succeed and change nothing but the alphabet
	if alpha == align.NUCLEOTIDS && r.Chance(0.2) && !strings.ContainsAny(strings.ToUpper(a.Rows.Key()), "UO") {
		got, err = f.Parse(strings.NewReader(text), pol, align.AMINOACIDS)
		c.Count("override-alphabet:" + fam)
		if !compare(c, f, "parse-override-alphabet", a.Rows, align.AMINOACIDS, got, err, text) {
			return
		}
	}
	if fam == "fasta" {
		sb, err := fasta.NewParser(strings.NewReader(text)).IgnoreIdentical(pol).ParseUnalign()
		c.Count("fasta:ParseUnalign")
		compare(c, f, "unalign", a.Rows, alpha, sb, err, text)
	}
	// Nexus carries the alphabet in its FORMAT command (docs/index.md: "the alphabet specified in the nexus
	// file is used"): a protein alignment made of letters that are also nucleotide codes comes back as protein
	if fam == "nexus" && alpha == align.NUCLEOTIDS && !strings.ContainsAny(strings.ToUpper(a.Rows.Key()), "UO") {
		if cl, err := al.Clone(); err == nil && cl.SetAlphabet(align.AMINOACIDS) == nil {
			t2 := f.Write(cl)
			c.Count("nexus:datatype-carried")
			if checkText(c, f, a.Rows, align.AMINOACIDS, t2) {
				got, err = f.Parse(strings.NewReader(t2), pol, align.BOTH)
				compare(c, f, "parse-datatype-carried", a.Rows, align.AMINOACIDS, got, err, t2)
			}
		}
	}
}

func describe(c *mon.Case, a alnCase) {
	n, L := len(a.Rows), len(a.Rows[0].Seq)
	c.Count("names:" + a.Profile)
	c.Count("kind:" + a.Kind)
	c.Count("shape:" + a.Shape)
	if a.Dots {
		c.Count("with-dot-residues")
	}
	if n == 1 {
		c.Count("rows:1")
	} else {
		c.Count("rows:2+")
	}
	for _, w := range []int{10, 50, 60, 80} {
		switch {
		case L%w == 0:
			c.Count(fmt.Sprintf("len:multiple-of-%d", w))
		case L%w == 1 && L > w:
			c.Count(fmt.Sprintf("len:multiple-of-%d-plus-1", w))
		case L%w == w-1:
			c.Count(fmt.Sprintf("len:multiple-of-%d-minus-1", w))
		}
	}
	c.Max("rows", n)
	c.Max("length", L)
}

func runRoundTrip(c *mon.Case) {
	a := genAln(c.R, 8, true)
	if c.R.Chance(0.05) {
		a = genAlnShape(c.R, c.R.Range(9, 14), genLen(c.R), a.Profile, false)
	}
	c.Input(a)
	describe(c, a)
	al, ok := mkSource(a.Rows)
	if !ok {
		c.Count("skipped:alphabet-not-detected")
		return
	}
	done := 0
	for _, f := range fmtio.All {
		if !representable(f, a.Rows) {
			c.Count("not-representable:" + f.Name)
			continue
		}
		roundTrip(c, f, a, al, true)
		done++
		if c.Failed() {
			return
		}
	}
	c.Note("%d rows x %d columns (%s), %d formats round-tripped", len(a.Rows), len(a.Rows[0].Seq), alphaName(al.Alphabet()), done)
}

// ---- keyword collisions ---------------------------------------------------------

// Reserved words of the formats (Nexus commands / sub-commands / datatypes, the Clustal and Stockholm
// header words and markers) plus words of the neighbouring formats. They are not delimiters: a taxon may be
// called END and a protein may read GAP.
var keywords = []string{"#NEXUS", "BEGIN", "END", "ENDBLOCK", "DATA", "CHARACTERS", "TAXA", "TAXLABELS", "TREES", "TREE", "DIMENSIONS", "NTAX", "NCHAR",
	"FORMAT", "DATATYPE", "MISSING", "GAP", "MATCHCHAR", "MATRIX", "INTERLEAVE", "SYMBOLS", "EQUATE", "TRANSLATE", "SETS", "ASSUMPTIONS", "CODONS", "NOTES",
	"UNALIGNED", "DISTANCES", "LINK", "TITLE", "RESPECTCASE", "TRANSPOSE", "ITEMS", "TOKENS", "NOLABELS", "OPTIONS", "ELIMINATE", "DNA", "RNA", "PROTEIN",
	"NUCLEOTIDE", "STANDARD", "NEXUS", "CLUSTAL", "CLUSTALW", "W", "MUSCLE", "STOCKHOLM", "//", "1.0", "GF", "GS", "GR", "GC", "ID", "PHYLIP", "FASTA",
	// residue strings / names that look like numbers to a careless tokenizer
	"NAN", "INF", "INFINITY", "ABCDEF", "E", "1E5", "0X1F", "1_0"}

var kwRoles = []string{"name-first", "name-middle", "name-last", "residues-first", "residues-middle", "residues-last"}

const ntLetters = "ACGTURYSWKMBDHVN"
const aaLetters = "ARNDCQEGHILKMFPSTWYVBZX"

func only(s, set string) bool {
	for _, c := range strings.ToUpper(s) {
		if !strings.ContainsRune(set, c) {
			return false
		}
	}
	return s != ""
}

func kwCount() int { return len(fmtio.All) * len(keywords) * 3 * len(kwRoles) }

func runKeywords(c *mon.Case) {
	idx := c.Idx % kwCount()
	f := fmtio.All[idx%len(fmtio.All)]
	idx /= len(fmtio.All)
	word := keywords[idx%len(keywords)]
	idx /= len(keywords)
	cs := idx % 3
	idx /= 3
	role := kwRoles[idx%len(kwRoles)]
	switch cs {
	case 1:
		word = strings.ToLower(word)
	case 2:
		b := []rune(strings.ToLower(word))
		b[0] = unicode.ToUpper(b[0])
		word = string(b)
	}
	r := c.R
	n := 3
	pos := map[string]int{"first": 0, "middle": 1, "last": 2}[role[strings.Index(role, "-")+1:]]
	a := alnCase{Profile: "keyword", Shape: role}
	a.Rows = make(gen.Rows, n)
	if strings.HasPrefix(role, "name") {
		L := r.PickInt([]int{3, 10, 61})
		a.Kind, a.Mix = "nt", "ACGT-"
		if r.Bool() {
			a.Kind, a.Mix = "aa", "ARNDCQEGHILKMFPSTWYV-"
		}
		for i := range a.Rows {
			a.Rows[i] = gen.Seq{Name: "s" + gen.Itoa(i), Seq: r.Str(L, a.Mix)}
		}
		a.Rows[pos].Name = word
	} else {
		isNt, isAa := only(word, ntLetters), only(word, aaLetters)
		if !isNt && !isAa {
			c.Count("keyword:not-a-residue-string")
			return
		}
		a.Kind, a.Mix = "aa", "ARNDCQEGHILKMFPSTWYV"
		if isNt && (!isAa || r.Bool()) {
			a.Kind, a.Mix = "nt", "ACGT"
		}
		for i := range a.Rows {
			a.Rows[i] = gen.Seq{Name: "s" + gen.Itoa(i), Seq: r.Str(len(word), a.Mix)}
		}
		a.Rows[pos].Seq = word
	}
	c.Input(map[string]interface{}{"format": f.Name, "word": word, "role": role, "rows": a.Rows})
	if !representable(f, a.Rows) {
		c.Count("keyword:not-representable:" + f.Name)
		return
	}
	al, ok := mkSource(a.Rows)
	if !ok {
		c.Count("skipped:alphabet-not-detected")
		return
	}
	c.Count("keyword:" + role)
	c.Count("keyword-fmt:" + family(f))
	roundTrip(c, f, a, al, false)
	c.NonTrivial(f.Name, word, role)
	c.Note("word %q as %s in %s", word, role, f.Name)
}

// ---- files: plain / .gz / .xz ----------------------------------------------------

func scratchDir() string {
	if d := os.Getenv("VERIF_SCRATCH"); d != "" {
		return d
	}
	return os.TempDir()
}

// readFileIndependently decodes the file with the standard library / the xz library, not with goalign.
func readFileIndependently(path, ext string) (string, error) {
	raw, err := os.ReadFile(path)
	if err != nil {
		return "", err
	}
	switch ext {
	case ".gz":
		zr, err := gzip.NewReader(bytes.NewReader(raw))
		if err != nil {
			return "", err
		}
		b, err := io.ReadAll(zr)
		return string(b), err
	case ".xz":
		zr, err := xz.NewReader(bytes.NewReader(raw))
		if err != nil {
			return "", err
		}
		b, err := io.ReadAll(zr)
		return string(b), err
	}
	return string(raw), nil
}

var exts = []string{"", ".gz", ".xz"}

func extName(e string) string {
	if e == "" {
		return "plain"
	}
	return e[1:]
}

func runFiles(c *mon.Case) {
	r := c.R
	f := fmtio.All[c.Idx%len(fmtio.All)]
	ext := exts[(c.Idx/len(fmtio.All))%3]
	// streams of several Phylip alignments in one file (what `build seqboot` writes)
	k := 1
	if family(f) == "phylip" && r.Chance(0.25) {
		k = r.Range(2, 4)
	}
	var members []alnCase
	var sources []align.Alignment
	text := ""
	var pieces []string
	for len(members) < k {
		var a alnCase
		if r.Chance(0.1) {
			a = genAlnShape(r, r.Range(8, 14), r.PickInt([]int{600, 1200, 2400}), "plain", false) // larger than the 4096 byte buffers
		} else {
			a = genAln(r, 8, true)
		}
		if !representable(f, a.Rows) {
			a = genAlnShape(r, len(a.Rows), len(a.Rows[0].Seq), "plain", false)
		}
		al, ok := mkSource(a.Rows)
		if !ok {
			continue
		}
		members = append(members, a)
		sources = append(sources, al)
		t := f.Write(al)
		pieces = append(pieces, t)
		text += t
	}
	path := filepath.Join(scratchDir(), fmt.Sprintf("c02-%d-%s-%d.aln%s", os.Getpid(), c.Sub, c.Idx, ext))
	defer os.Remove(path)
	how := r.Intn(4)
	c.Input(map[string]interface{}{"format": f.Name, "ext": extName(ext), "members": members, "write-calls": how})
	describe(c, members[0])
	stage := "file-" + extName(ext)
	failIO := func(kind, format string, a ...interface{}) {
		c.Failf(sigFmt(f)+":"+stage+":"+kind, "file %s%s (%d bytes of text, %d alignment(s)): %s", f.Name, ext, len(text), k, fmt.Sprintf(format, a...))
	}
	w, err := utils.OpenWriteFile(path)
	if err != nil {
		failIO("open-write", "OpenWriteFile: %v", err)
		return
	}
	switch how {
	case 0:
		_, err = w.WriteString(text)
	case 1:
		for _, p := range pieces {
			if _, err = w.WriteString(p); err != nil {
				break
			}
		}
	default:
		// chunks, through Write only (2) or through Write and WriteString in turn (3)
		b := []byte(text)
		for i := 0; len(b) > 0 && err == nil; i++ {
			m := r.PickInt([]int{1, 7, 80, 1000, 5000})
			if m > len(b) {
				m = len(b)
			}
			if how == 3 && i%2 == 1 {
				_, err = w.WriteString(string(b[:m]))
			} else {
				_, err = w.Write(b[:m])
			}
			b = b[m:]
		}
	}
	c.Count(fmt.Sprintf("file:write-mode-%d", how))
	if err != nil {
		failIO("write", "write: %v", err)
		return
	}
	if r.Bool() {
		utils.CloseWriteFile(w, path)
	} else if err = w.Close(); err != nil {
		failIO("close", "Close: %v", err)
		return
	}
	c.Count("file:" + extName(ext))
	c.Count("file:" + extName(ext) + ":" + family(f))
	c.Max("file-text-bytes", len(text))
	if len(text) > 4096 {
		c.Count("file:larger-than-4096:" + extName(ext))
	}
	back, err := readFileIndependently(path, ext)
	c.Count("file:decoded-independently:" + extName(ext))
	if err != nil {
		failIO("content", "the file written through OpenWriteFile is not a readable %s file: %v", extName(ext), err)
		return
	}
	if back != text {
		failIO("content", "the file holds %d bytes of text after decoding, %d were written (common prefix %d)", len(back), len(text), commonPrefix(back, text))
		return
	}
	// read it back through goalign
	cl, rd, err := utils.GetReader(path)
	if err != nil {
		failIO("open-read", "GetReader: %v", err)
		return
	}
	if k == 1 {
		got, err := f.Parse(rd, policies[r.Intn(3)], align.BOTH)
		cl.Close()
		if !compare(c, f, stage, members[0].Rows, sources[0].Alphabet(), got, err, text) {
			return
		}
		if !f.Strict && family(f) != "stockholm" {
			got, err = utils.ReadAlign(path, f.Code, align.BOTH)
			c.Count("ReadAlign:" + family(f))
			if !compare(c, f, "ReadAlign-"+extName(ext), members[0].Rows, sources[0].Alphabet(), got, err, text) {
				return
			}
		}
	} else {
		ok := checkStream(c, f, stage+"-stream", members, sources, func() (*align.AlignChannel, error) {
			ch := &align.AlignChannel{Achan: make(chan align.Alignment, 15)}
			go phylip.NewParser(rd, f.Strict).ParseMultiple(ch)
			return ch, nil
		}, text)
		cl.Close()
		c.Count("file:phylip-stream")
		if !ok {
			return
		}
	}
	// the command line's --auto-detect path: GetReader + ParseMultiAlignmentsAuto, which closes the file itself
	if family(f) != "stockholm" {
		var code int
		c.Count("file:auto-detect:" + extName(ext))
		if !checkStream(c, f, "file-auto-"+extName(ext), members, sources, func() (*align.AlignChannel, error) {
			cl, rd, err := utils.GetReader(path)
			if err != nil {
				return nil, err
			}
			ch, fc, err := utils.ParseMultiAlignmentsAuto(cl, rd, f.Strict, align.BOTH)
			code = fc
			return ch, err
		}, text) {
			return
		}
		if code != f.Code {
			failIO("auto-format", "ParseMultiAlignmentsAuto reports format code %d for a file written as %s (code %d)", code, f.Name, f.Code)
			return
		}
	}
	if len(members[0].Rows) >= 2 && len(text) > 200 {
		c.NonTrivial(f.Name, ext, members[0].Rows.Key())
	}
	c.Note("%s%s: %d bytes of text, %d alignment(s) read back identical", f.Name, ext, len(text), k)
}

func commonPrefix(a, b string) int {
	i := 0
	for i < len(a) && i < len(b) && a[i] == b[i] {
		i++
	}
	return i
}

// ---- Phylip streams -------------------------------------------------------------

// checkStream drains the channel and compares the list of alignments with the members written.
func checkStream(c *mon.Case, f fmtio.Format, stage string, members []alnCase, sources []align.Alignment, open func() (*align.AlignChannel, error), text string) bool {
	ch, err := open()
	if err != nil {
		c.Failf(sigFmt(f)+":"+stage+":error", "%v\ntext:\n%s", err, clip(text, 1500))
		return false
	}
	var got []align.Alignment
	for al := range ch.Achan {
		got = append(got, al)
		if len(got) > len(members)+20 {
			break
		}
	}
	if ch.Err != nil {
		c.Failf(sigFmt(f)+":"+stage+":error", "stream of %d alignments written one after the other: the parser reports %v after %d alignments\ntext:\n%s", len(members), ch.Err, len(got), clip(text, 1800))
		return false
	}
	if len(got) != len(members) {
		c.Failf(sigFmt(f)+":"+stage+":count", "stream of %d alignments written one after the other parses back as %d alignments\ntext:\n%s", len(members), len(got), clip(text, 1800))
		return false
	}
	for i := range got {
		if !compare(c, f, fmt.Sprintf("%s-member", stage), members[i].Rows, sources[i].Alphabet(), got[i], nil, text) {
			return false
		}
	}
	return true
}

var phylipFormats = func() []fmtio.Format {
	var p []fmtio.Format
	for _, f := range fmtio.All {
		if family(f) == "phylip" {
			p = append(p, f)
		}
	}
	return p
}()

func runStream(c *mon.Case) {
	r := c.R
	f := phylipFormats[c.Idx%len(phylipFormats)]
	k := 1 + (c.Idx/len(phylipFormats))%5
	mixed := r.Chance(0.3) // members written with different one-line / no-block options (same strictness)
	var members []alnCase
	var sources []align.Alignment
	var opts []string
	text := ""
	for len(members) < k {
		maxRows := 6
		a := genAln(r, maxRows, true)
		wf := f
		if mixed {
			wf = phylipFormats[r.Intn(len(phylipFormats))]
			for wf.Strict != f.Strict {
				wf = phylipFormats[r.Intn(len(phylipFormats))]
			}
		}
		if !representable(wf, a.Rows) {
			a = genAlnShape(r, len(a.Rows), len(a.Rows[0].Seq), r.PickStr([]string{"plain", "numeric", "short-hostile"}), a.Dots)
			if !representable(wf, a.Rows) {
				continue
			}
		}
		al, ok := mkSource(a.Rows)
		if !ok {
			continue
		}
		members = append(members, a)
		sources = append(sources, al)
		opts = append(opts, wf.Name)
		text += wf.Write(al)
	}
	c.Input(map[string]interface{}{"parser": f.Name, "written-as": opts, "members": members})
	c.Count(fmt.Sprintf("stream:members=%d", k))
	c.Count("stream:" + f.Name)
	if mixed {
		c.Count("stream:mixed-options")
	}
	last := members[k-1]
	if L := len(last.Rows[0].Seq); L%60 == 0 {
		c.Count("stream:member-ending-on-a-full-line")
	}
	// ParseMultiple
	if !checkStream(c, f, "stream", members, sources, func() (*align.AlignChannel, error) {
		ch := &align.AlignChannel{Achan: make(chan align.Alignment, 15)}
		go phylip.NewParser(strings.NewReader(text), f.Strict).ParseMultiple(ch)
		return ch, nil
	}, text) {
		return
	}
	// successive Parse calls on one parser: k alignments, then the end-of-stream marker (nil, nil)
	p := phylip.NewParser(strings.NewReader(text), f.Strict)
	for i := 0; i <= k; i++ {
		al, err := p.Parse()
		if i == k {
			if al != nil || err != nil {
				c.Failf(sigFmt(f)+":stream-parse-calls:trailing", "after the %d alignments of the stream Parse returns (%v, %v) instead of the end of stream\ntext:\n%s", k, al != nil, err, clip(text, 1500))
				return
			}
			break
		}
		if !compare(c, f, "stream-parse-calls", members[i].Rows, sources[i].Alphabet(), al, err, text) {
			return
		}
	}
	// ParseMultiAlignmentsAuto
	var code int
	if !checkStream(c, f, "stream-auto", members, sources, func() (*align.AlignChannel, error) {
		ch, fc, err := utils.ParseMultiAlignmentsAuto(nil, bufio.NewReader(strings.NewReader(text)), f.Strict, align.BOTH)
		code = fc
		return ch, err
	}, text) {
		return
	}
	if code != align.FORMAT_PHYLIP {
		c.Failf(sigFmt(f)+":stream-auto:format", "auto-detection reports format code %d for a Phylip stream", code)
		return
	}
	if k >= 2 {
		keys := []string{f.Name}
		for _, m := range members {
			keys = append(keys, m.Rows.Key())
		}
		c.NonTrivial(keys...)
	}
	c.Note("%d Phylip alignments (%v) came back as the same list through ParseMultiple, Parse x %d and ParseMultiAlignmentsAuto", k, opts, k+1)
}

// ---- auto-detection --------------------------------------------------------------

var autoFormats = func() []fmtio.Format {
	var p []fmtio.Format
	for _, f := range fmtio.All {
		if family(f) != "stockholm" {
			p = append(p, f)
		}
	}
	return p
}()

func runAuto(c *mon.Case) {
	r := c.R
	// fasta, nexus and clustal as often as the eight phylip variants together
	var f fmtio.Format
	switch c.Idx % 4 {
	case 0:
		f = fmtio.ByName("fasta")
	case 1:
		f = fmtio.ByName("nexus")
	case 2:
		f = fmtio.ByName("clustal")
	default:
		f = phylipFormats[(c.Idx/4)%len(phylipFormats)]
	}
	a := genAln(r, 8, true)
	if !representable(f, a.Rows) {
		a = genAlnShape(r, len(a.Rows), len(a.Rows[0].Seq), r.PickStr([]string{"plain", "numeric", "short-hostile", "residue-like"}), false)
		if !representable(f, a.Rows) {
			c.Count("not-representable:" + f.Name)
			return
		}
	}
	describe(c, a)
	al, ok := mkSource(a.Rows)
	if !ok {
		c.Count("skipped:alphabet-not-detected")
		return
	}
	text := f.Write(al)
	c.Input(map[string]interface{}{"format": f.Name, "aln": a})
	c.Count("auto:" + family(f))
	// the strictness flag only matters for Phylip; for the others draw it at random: it must not matter
	strict := f.Strict
	if family(f) != "phylip" {
		strict = r.Bool()
	}
	got, code, err := utils.ParseAlignmentAuto(bufio.NewReader(strings.NewReader(text)), strict)
	if err == nil && code != f.Code {
		c.Failf(sigFmt(f)+":auto:format", "ParseAlignmentAuto reports format code %d for a text written as %s (code %d)\ntext:\n%s", code, f.Name, f.Code, clip(text, 600))
		return
	}
	if !compare(c, f, "auto", a.Rows, al.Alphabet(), got, err, text) {
		return
	}
	var code2 int
	if !checkStream(c, f, "multi-auto", []alnCase{a}, []align.Alignment{al}, func() (*align.AlignChannel, error) {
		alpha := align.BOTH
		if r.Chance(0.3) {
			alpha = al.Alphabet()
			c.Count("auto:explicit-alphabet")
		}
		ch, fc, err := utils.ParseMultiAlignmentsAuto(nil, bufio.NewReader(strings.NewReader(text)), strict, alpha)
		code2 = fc
		return ch, err
	}, text) {
		return
	}
	if code2 != f.Code {
		c.Failf(sigFmt(f)+":multi-auto:format", "ParseMultiAlignmentsAuto reports format code %d for a text written as %s (code %d)", code2, f.Name, f.Code)
		return
	}
	if len(a.Rows) >= 2 {
		c.NonTrivial(f.Name, a.Rows.Key())
	}
	c.Note("%s detected as format %d, same alignment", f.Name, code)
}

// ---- chains of conversions --------------------------------------------------------

func runChain(c *mon.Case) {
	r := c.R
	k := 2 + c.Idx%4
	chain := make([]fmtio.Format, k)
	for i := range chain {
		chain[i] = fmtio.All[r.Intn(len(fmtio.All))]
	}
	chain = append(chain, chain[0]) // ... and back to the first format
	var a alnCase
	for tries := 0; ; tries++ {
		a = genAln(r, 8, true)
		if tries > 3 {
			a = genAlnShape(r, len(a.Rows), len(a.Rows[0].Seq), "plain", false)
		}
		ok := true
		for _, f := range chain {
			ok = ok && representable(f, a.Rows)
		}
		if ok {
			break
		}
	}
	names := make([]string, len(chain))
	for i, f := range chain {
		names[i] = f.Name
	}
	c.Input(map[string]interface{}{"chain": names, "aln": a})
	describe(c, a)
	al, ok := mkSource(a.Rows)
	if !ok {
		c.Count("skipped:alphabet-not-detected")
		return
	}
	alpha := al.Alphabet()
	cur := al
	for i, f := range chain {
		text := f.Write(cur)
		got, err := f.Parse(strings.NewReader(text), align.IGNORE_NONE, align.BOTH)
		c.Count("chain-step:" + family(f))
		if !compare(c, f, "chain", a.Rows, alpha, got, err, fmt.Sprintf("(step %d of chain %v)\n%s", i+1, names, text)) {
			return
		}
		cur = got
	}
	c.Count(fmt.Sprintf("chain:length=%d", k))
	if len(a.Rows) >= 2 {
		c.NonTrivial(strings.Join(names, ">"), a.Rows.Key())
	}
	c.Note("chain %v returned the source alignment", names)
}

// ---- fixed witnesses ---------------------------------------------------------------

type witness struct {
	what    string
	rows    gen.Rows
	formats []string // nil = every representable format
}

func rowsOf(kv ...string) gen.Rows {
	var r gen.Rows
	for i := 0; i+1 < len(kv); i += 2 {
		r = append(r, gen.Seq{Name: kv[i], Seq: kv[i+1]})
	}
	return r
}

func rep(s string, n int) string { return strings.Repeat(s, n)[:n] }

var witnesses = []witness{
	// defect found on the pinned tree: Nexus lexer turns rows / names spelling a reserved word into keyword tokens
	{"nexus: protein row GAP", rowsOf("s0", "GAP", "s1", "QEL"), []string{"nexus"}},
	{"nexus: taxon called GAP", rowsOf("GAP", "ACGT", "s1", "ACGA"), []string{"nexus"}},
	{"nexus: taxon called end", rowsOf("s0", "ACGT", "end", "ACGA"), []string{"nexus"}},
	{"nexus: nucleotide row DATA", rowsOf("s0", "DATA", "s1", "ACGT"), []string{"nexus"}},
	{"nexus: nucleotide row matchchar", rowsOf("s0", "ACGTACGTA", "s1", "matchchar"), []string{"nexus"}},
	{"nexus: protein row MATRIX, taxon Taxa", rowsOf("Taxa", "MATRIX", "s1", "QELQEL"), []string{"nexus"}},
	{"clustal: sequence called CLUSTAL", rowsOf("s0", "ACGT", "CLUSTAL", "ACGA"), []string{"clustal"}},
	{"clustal: sequence called clustalw (first row)", rowsOf("clustalw", rep("ACGT", 61), "s1", rep("ACGA", 61)), []string{"clustal"}},
	{"stockholm: sequence called STOCKHOLM", rowsOf("s0", "ACGT", "STOCKHOLM", "ACGA"), []string{"stockholm"}},
	{"stockholm: sequence called Stockholm (first row)", rowsOf("Stockholm", "ACGT", "s1", "ACGA"), []string{"stockholm"}},
	// boundaries the random workload hits with low probability in combination
	{"10 character names, length 60 (one full Phylip line)", rowsOf("tenchars10", rep("ACGTN-", 60), "0123456789", rep("TGCA", 60)), nil},
	{"10 character names, length 61", rowsOf("tenchars10", rep("ACGTN-", 61), "0123456789", rep("TGCA", 61)), nil},
	{"length 120, numeric names", rowsOf("1", rep("ACDEFGHIKL", 120), "2", rep("MNPQRSTVWY", 120), "10", rep("-*?X", 120)), nil},
	{"length 80 / 81 / 160 (FASTA lines)", rowsOf("a", rep("ACGT", 80)), nil},
	{"length 81", rowsOf("a", rep("ACGT", 81), "b", rep("acgt", 81)), nil},
	{"length 160", rowsOf("a", rep("ACGT", 160), "b", rep("a-g?", 160)), nil},
	{"length 50 / 51 / 100 (Clustal blocks)", rowsOf("a", rep("ARND", 50), "bb", rep("QEGH", 50)), nil},
	{"length 51", rowsOf("a", rep("ARND", 51), "bb", rep("QEGH", 51)), nil},
	{"length 100", rowsOf("a", rep("ARND", 100), "bb", rep("QEGH", 100)), nil},
	{"length 1, one row", rowsOf("x", "A"), nil},
	{"only gaps", rowsOf("x", "----------", "y", "----------"), nil},
	{"residue-like and numeric names", rowsOf("-", "ACGT", "*", "ACGA", "+5", "AC-A", "007", "A?*T"), nil},
	{"'.' residues (FASTA, Phylip, Clustal)", rowsOf("a", "AC.T", "b", "A..T"), []string{"fasta", "phylip", "phylip-strict", "clustal", "phylip-oneline-noblock"}},
	{"name starting with '#' / holding '>'", rowsOf("#a", "ACGT", "b>c", "ACGA"), []string{"fasta", "phylip", "phylip-strict", "nexus", "clustal"}},
	{"names with Nexus delimiters", rowsOf("a[1]", "ACGT", "b;c=d", "ACGA"), []string{"fasta", "phylip", "phylip-strict", "clustal"}},
	{"non ASCII names", rowsOf("é", "ACGT", "名前", "ACGA"), nil},
	{"10 non ASCII characters (strict Phylip name field)", rowsOf("éééééééééé", "ACGT", "ab", "ACGA"), nil},
}

func runWitness(c *mon.Case) {
	w := witnesses[c.Idx%len(witnesses)]
	a := alnCase{Rows: w.rows, Profile: "witness", Shape: w.what}
	c.Input(map[string]interface{}{"what": w.what, "rows": w.rows, "formats": w.formats})
	al, ok := mkSource(a.Rows)
	if !ok {
		c.Failf("witness:alphabet-not-detected", "witness %q: goalign cannot classify the residues", w.what)
		return
	}
	done := 0
	for _, f := range fmtio.All {
		if w.formats != nil {
			in := false
			for _, n := range w.formats {
				in = in || n == f.Name
			}
			if !in {
				continue
			}
		}
		if !representable(f, a.Rows) {
			continue
		}
		roundTrip(c, f, a, al, true)
		done++
	}
	c.Count("witness")
	c.NonTrivial(w.what)
	c.Note("%s: %d formats", w.what, done)
}

func main() {
	mon.SetNote("rule", "case = one generated alignment (1..14 rows; length drawn from the values on / next to every writer width 10, 50, 60, 80 and their multiples, up to 600, 2400 for files; nucleotide IUPAC codes incl. U or the 20 amino acids + B Z X, both cases, '-', '*', '?', '.' where representable; names from ten classes: plain, hostile punctuation, 9/10/11 characters, long, all-digit / signed, format delimiters, non ASCII, residue-like, shared prefixes, one character) whose alphabet goalign detected, written by goalign's writer and read back by goalign's parser, for each of the 13 (format, option) pairs in which it is representable; sub-checks: direct round trip (+ explicit alphabet, FASTA ParseUnalign, Nexus datatype), exhaustive keyword table, plain/.gz/.xz files through OpenWriteFile/GetReader/ReadAlign, streams of 1..5 Phylip alignments (ParseMultiple, repeated Parse, ParseMultiAlignmentsAuto), ParseAlignmentAuto, chains of 2..5 conversions returning to the first format. Non-trivial = at least 2 rows and the writer's text really cut a row into several lines/blocks (Nexus/Stockholm, which never wrap: at least 2 rows and 2 columns with one of '-', '*', '?'); distinct = (format, names, residues). Sub-checks cli / cli-refused (cli.go): the same round trip through the command: one `goalign reformat fasta|phylip|nexus|clustal` process per case, built from the tree under test; the case index walks 5 sub command slots x 9 input modes (FASTA by default, -p, -p --input-strict, -x, -u, -k, --auto-detect over the 6 kinds of text, Phylip files with 2..4 alignments, --unaligned), everything else is drawn: input from a plain/.gz/.xz file or stdin, output to stdout or a plain/.gz/.xz -o file, --output-strict / --one-line / --no-block, --alphabet, --ignore-identical, --clean-names, -t, --seed, overridden / lower priority format flags; the output is read with the reference readers of ref.go and must spell the source alignment(s); cli-refused: 36 kinds of refused input (missing / empty file, unknown alphabet or flag, unwritable output, a text announced as another format, a text cut in the middle) must end with a message and a non zero status, never with a crash.")
	mon.SetNote("assumptions", "representability (part of the quantifier): names are 1..64 printable non blank characters (ASCII 0x21-0x7E, a few non ASCII letters), pairwise distinct;; "+
		"FASTA: a name may not START with '>' (the record marker; '>' inside a name is kept);; "+
		"strict Phylip: names of at most 10 characters (the documentation says longer names are truncated, so they are outside the quantifier);; "+
		"Nexus: names without '[' ']' ';' '=' (comment, end-of-command and key=value punctuation of the format); residues without '.' (matchchar of the format: it is resolved against the first row);; "+
		"Stockholm: names without '[' ']' ';' '=' (goalign's Stockholm lexer shares the Nexus punctuation; excluded as the design prescribes), not starting with '#' (markup line marker), not equal to '//' (record terminator); residues without '.' (Stockholm gap character, read as '-');; "+
		"Clustal and relaxed Phylip: no character excluded;; "+
		"reserved WORDS (GAP, END, DATA, MATRIX, CLUSTAL, STOCKHOLM ...) are not delimiters and stay inside the quantifier, as names and as residue rows;; "+
		"residues: IUPAC nucleotide codes ACGTU RYSWKM BDHV N, amino acids ARNDCQEGHILKMFPSTWYV BZX, both cases, '-' '*' '?'; J, O and U-in-proteins are left out because goalign's alphabet tables do not know them (such an alignment has no detected alphabet to compare);; "+
		"the source alphabet is the one goalign detects (AutoAlphabet) so that 'same detected alphabet' is well defined; for Nexus the alphabet written in the FORMAT command is authoritative (docs/index.md), also checked with a protein alignment made of letters that are nucleotide codes too;; "+
		"duplicate-name policy of the parser drawn at random (names are distinct: it must not matter);; "+
		"ReadAlign has no Stockholm nor strict Phylip mode (documented): those go through GetReader + parser;; "+
		"trusted base: reference readers of ref.go (width agnostic, written from the format descriptions), compress/gzip and github.com/ulikunitz/xz readers (called directly, not through goalign) used to decode the written files;; "+
		"layout is only checked where the documentation states it: --one-line (one line per sequence), --no-block (no blank inside the residues), 10 residue blocks otherwise, strict Phylip residues starting at column 11; line widths 80/60/50 are NOT demanded;; "+
		"cli: the input text is written by goalign's own writers (checked by the other sub-checks, and read with the reference reader before it is used) and compressed here with compress/gzip / ulikunitz/xz;; "+
		"cli: documented and demanded: reformat fasta takes the first alignment of a Phylip file, phylip and nexus all of them; reformat clustal says nothing: the first one or all are accepted;; "+
		"cli: --input-strict is documented as 'only used with -p' and --auto-detect as 'phylip considered as not strict' while the command forwards --input-strict to the auto-detected Phylip parser: with both flags on a strict file the source alignment is demanded, except when a name fills the 10 character field (then the documented relaxed reading cannot succeed: an error is accepted too); a strict file with such a name read with --auto-detect alone is outside the documented use (only: no crash);; "+
		"cli: --clean-names is only exercised with one isolated '(' ')' ',' or ':' between letters (the documentation does not say whether runs of special characters collapse);; "+
		"cli: --output-strict truncates names to 10 characters (documented): exercised with ASCII names only;; "+
		"cli: without --one-line a sequence of more than 250 residues must take several lines, without --no-block blocks are 10 residues long (the only observable meaning of the two flags); with -o <file> nothing may be written on stdout;; "+
		"cli: an empty Phylip file is a list of no alignment: status 0 with nothing written or an error, never a crash; a text announced as another format must be refused when the announced format demands a first token the text does not have ('>', #NEXUS, CLUSTAL, # STOCKHOLM 1.0) or is FASTA announced as Phylip, otherwise only 'no crash' is demanded; a run of more than 120 s is a hang")
	mon.SetNote("exhaustive_subspaces", fmt.Sprintf("keywords: %d reserved words x 3 spellings (upper, lower, capitalised) x 6 roles (name / whole residue row at the first, middle, last row) x 13 formats = %d cases, all run at both tiers", len(keywords), kwCount()))
	for _, f := range fmtio.All {
		mon.Floor("fmt:"+f.Name, 2000)
		if fam := family(f); fam != "nexus" && fam != "stockholm" && !strings.Contains(f.Name, "oneline-noblock") {
			mon.Floor("wrapped:"+f.Name, 1000)
		}
		mon.Floor("fmt:"+f.Name+":nt", 500)
		mon.Floor("fmt:"+f.Name+":aa", 500)
	}
	for _, p := range nameProfiles {
		mon.Floor("names:"+p, 500)
	}
	for _, w := range []int{10, 50, 60, 80} {
		mon.Floor(fmt.Sprintf("len:multiple-of-%d", w), 500)
		mon.Floor(fmt.Sprintf("len:multiple-of-%d-plus-1", w), 300)
		mon.Floor(fmt.Sprintf("len:multiple-of-%d-minus-1", w), 300)
	}
	for _, e := range []string{"plain", "gz", "xz"} {
		mon.Floor("file:"+e, 300)
		mon.Floor("file:larger-than-4096:"+e, 20)
	}
	mon.Floor("file:phylip-stream", 50)
	mon.Floor("file:decoded-independently:gz", 300)
	mon.Floor("file:decoded-independently:xz", 300)
	for k := 1; k <= 5; k++ {
		mon.Floor(fmt.Sprintf("stream:members=%d", k), 300)
	}
	mon.Floor("stream:mixed-options", 300)
	mon.Floor("stream:member-ending-on-a-full-line", 100)
	for _, fam := range []string{"fasta", "nexus", "clustal", "phylip"} {
		mon.Floor("auto:"+fam, 500)
		mon.Floor("ReadAlign:"+fam, 50)
	}
	for k := 2; k <= 5; k++ {
		mon.Floor(fmt.Sprintf("chain:length=%d", k), 300)
	}
	for _, role := range kwRoles {
		mon.Floor("keyword:"+role, 500)
	}
	mon.Floor("fasta:ParseUnalign", 1000)
	for _, fam := range []string{"fasta", "phylip", "nexus", "clustal", "stockholm"} {
		mon.Floor("override-alphabet:"+fam, 200)
	}
	for _, e := range []string{"plain", "gz", "xz"} {
		mon.Floor("file:auto-detect:"+e, 200)
	}
	for i := 0; i < 4; i++ {
		mon.Floor(fmt.Sprintf("file:write-mode-%d", i), 200)
	}
	mon.Floor("nexus:datatype-carried", 300)
	mon.Floor("with-dot-residues", 300)
	mon.Floor("rows:1", 300)
	mon.Floor("witness", len(witnesses))
	cliFloors()
	mon.Floor("concurrent:calls", 500)
	mon.Floor("long:stockholm", 9)
	mon.Floor("long:nexus", 9)
	mon.Main("C02", []mon.Sub{
		{Name: "witness", Quick: len(witnesses), Thorough: len(witnesses), Run: runWitness},
		{Name: "keywords", Quick: kwCount(), Thorough: kwCount(), Run: runKeywords},
		{Name: "roundtrip", Quick: 30000, Thorough: 800000, Run: runRoundTrip},
		{Name: "stream", Quick: 12000, Thorough: 300000, Run: runStream},
		{Name: "auto", Quick: 12000, Thorough: 300000, Run: runAuto},
		{Name: "chain", Quick: 6000, Thorough: 150000, Run: runChain},
		{Name: "files", Quick: 2600, Thorough: 52000, Run: runFiles},
		// the same round trip through the command `goalign reformat` (cli.go): one process per case
		{Name: "long", Quick: 13 * 9, Thorough: 13 * 9 * 4, Run: runLong},
		{Name: "concurrent", Quick: 64, Thorough: 1200, Race: true, Run: func(c *mon.Case) { conc.Run(c, "formats") }},
		{Name: "cli", Quick: 270, Thorough: 6300, Run: runCli},                // 6 (140 at the thorough tier) rounds over 5 sub commands x 9 input modes
		{Name: "cli-refused", Quick: 108, Thorough: 1440, Run: runCliRefused}, // 36 kinds of refused input x 3 (all 4 at the thorough tier) sub commands
	})
}
