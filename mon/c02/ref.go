// Reference readers of the five alignment formats, written from the format
// descriptions (FASTA: '>' name line + residue lines; Phylip: "n L" header, n rows
// "name residues", following interleaved blocks without names, strict = 10 character
// name field; Nexus: "matrix" rows "name residues" up to ';'; Clustal: header line,
// blocks of "name residues [count]" + a conservation line starting with a blank;
// Stockholm: "# STOCKHOLM 1.0", '#' markup lines, "name residues" rows, "//").
// They accept any line width and are used to decide whether the text produced by a
// goalign writer really is alignment A in format F, independently of goalign's parsers.
package main

import (
	"fmt"
	"strconv"
	"strings"
	"unicode/utf8"

	"verif/lib/gen"
)

func stripBlanks(s string) string {
	if !strings.ContainsAny(s, " \t") {
		return s
	}
	return strings.Map(func(r rune) rune {
		if r == ' ' || r == '\t' {
			return -1
		}
		return r
	}, s)
}

// splitNameRest cuts "name<blanks>rest" at the first blank.
func splitNameRest(l string) (string, string) {
	i := strings.IndexAny(l, " \t")
	if i < 0 {
		return l, ""
	}
	return l[:i], l[i:]
}

func lines(text string) []string {
	ls := strings.Split(text, "\n")
	if len(ls) > 0 && ls[len(ls)-1] == "" {
		ls = ls[:len(ls)-1]
	}
	return ls
}

func refFasta(text string) (gen.Rows, error) {
	var rows gen.Rows
	for _, l := range lines(text) {
		if strings.HasPrefix(l, ">") {
			rows = append(rows, gen.Seq{Name: l[1:]})
			continue
		}
		if len(rows) == 0 {
			return nil, fmt.Errorf("residue line before the first '>' line")
		}
		rows[len(rows)-1].Seq += stripBlanks(l)
	}
	return rows, nil
}

// phylipLayout describes what the documentation says about the writer options.
type phylipLayout struct {
	nonEmptyLines int
	blankInside   bool // a blank inside the residue part of a line
	maxChunk      int  // longest run of residues between two blanks
	shortInner    bool // a chunk that is not the last one of its line and is not exactly 10 residues long
	firstResCol   int  // column (in characters, 1-based) of the first residue of the first row; strict: must be 11
}

func chunkStats(res string, lay *phylipLayout) {
	ch := strings.Fields(res)
	if len(ch) > 1 {
		lay.blankInside = true
	}
	for i, x := range ch {
		if len(x) > lay.maxChunk {
			lay.maxChunk = len(x)
		}
		if i < len(ch)-1 && len(x) != 10 {
			lay.shortInner = true
		}
	}
}

func refPhylip(text string, strict bool) (gen.Rows, phylipLayout, error) {
	var lay phylipLayout
	ls := lines(text)
	if len(ls) == 0 {
		return nil, lay, fmt.Errorf("empty text")
	}
	hd := strings.Fields(ls[0])
	if len(hd) != 2 {
		return nil, lay, fmt.Errorf("header %q is not 'n L'", ls[0])
	}
	n, e1 := strconv.Atoi(hd[0])
	L, e2 := strconv.Atoi(hd[1])
	if e1 != nil || e2 != nil || n <= 0 {
		return nil, lay, fmt.Errorf("header %q is not 'n L'", ls[0])
	}
	rows := make(gen.Rows, 0, n)
	k := 0
	for _, l := range ls[1:] {
		if strings.TrimSpace(l) == "" {
			continue
		}
		lay.nonEmptyLines++
		if k < n {
			var name, rest string
			if strict {
				// name field = the first 10 characters
				cut, cnt := len(l), 0
				for i := range l {
					if cnt == 10 {
						cut = i
						break
					}
					cnt++
				}
				name, rest = stripBlanks(l[:cut]), l[cut:]
				if k == 0 {
					lay.firstResCol = utf8.RuneCountInString(l[:cut]) + 1 + (len(rest) - len(strings.TrimLeft(rest, " ")))
				}
			} else {
				name, rest = splitNameRest(l)
			}
			chunkStats(rest, &lay)
			rows = append(rows, gen.Seq{Name: name, Seq: stripBlanks(rest)})
		} else {
			chunkStats(l, &lay)
			rows[k%n].Seq += stripBlanks(l)
		}
		k++
	}
	if len(rows) != n {
		return rows, lay, fmt.Errorf("header announces %d rows, text has %d", n, len(rows))
	}
	if k%n != 0 {
		return rows, lay, fmt.Errorf("last block has %d lines for %d rows", k%n, n)
	}
	for _, r := range rows {
		if len(r.Seq) != L {
			return rows, lay, fmt.Errorf("header announces length %d, row %q has %d residues", L, r.Name, len(r.Seq))
		}
	}
	return rows, lay, nil
}

// refNexus returns the rows and the datatype announced in the FORMAT command.
func refNexus(text string) (gen.Rows, string, error) {
	ls := lines(text)
	if len(ls) == 0 || !strings.EqualFold(strings.TrimSpace(ls[0]), "#NEXUS") {
		return nil, "", fmt.Errorf("text does not start with #NEXUS")
	}
	var rows gen.Rows
	ntax, nchar, datatype := -1, -1, ""
	inMatrix, done := false, false
	for _, l := range ls[1:] {
		t := strings.TrimSpace(l)
		low := strings.ToLower(t)
		if !inMatrix {
			switch {
			case strings.HasPrefix(low, "dimensions"):
				for _, f := range strings.Fields(strings.TrimSuffix(low, ";")) {
					if strings.HasPrefix(f, "ntax=") {
						ntax, _ = strconv.Atoi(f[5:])
					}
					if strings.HasPrefix(f, "nchar=") {
						nchar, _ = strconv.Atoi(f[6:])
					}
				}
			case strings.HasPrefix(low, "format"):
				for _, f := range strings.Fields(strings.TrimSuffix(low, ";")) {
					if strings.HasPrefix(f, "datatype=") {
						datatype = f[9:]
					}
				}
			case low == "matrix" && !done:
				inMatrix = true
			}
			continue
		}
		if t == ";" {
			inMatrix, done = false, true
			continue
		}
		if t == "" {
			continue
		}
		name, rest := splitNameRest(l)
		rows = append(rows, gen.Seq{Name: name, Seq: stripBlanks(rest)})
	}
	if !done {
		return rows, datatype, fmt.Errorf("no MATRIX ... ; command")
	}
	if ntax != len(rows) {
		return rows, datatype, fmt.Errorf("ntax=%d but the matrix has %d rows", ntax, len(rows))
	}
	for _, r := range rows {
		if len(r.Seq) != nchar {
			return rows, datatype, fmt.Errorf("nchar=%d but row %q has %d residues", nchar, r.Name, len(r.Seq))
		}
	}
	return rows, datatype, nil
}

func refClustal(text string) (gen.Rows, error) {
	ls := lines(text)
	if len(ls) == 0 || !strings.HasPrefix(ls[0], "CLUSTAL") {
		return nil, fmt.Errorf("text does not start with CLUSTAL")
	}
	var rows gen.Rows
	idx := map[string]int{}
	pos := 0 // position inside the current block
	for _, l := range ls[1:] {
		if strings.TrimSpace(l) == "" || l[0] == ' ' || l[0] == '\t' {
			pos = 0 // blank line or conservation line: end of a block
			continue
		}
		f := strings.Fields(l)
		if len(f) < 2 || len(f) > 3 {
			return rows, fmt.Errorf("line %q is not 'name residues [count]'", l)
		}
		if len(f) == 3 {
			if _, err := strconv.Atoi(f[2]); err != nil {
				return rows, fmt.Errorf("line %q: third field is not a count", l)
			}
		}
		i, ok := idx[f[0]]
		if !ok {
			i = len(rows)
			idx[f[0]] = i
			rows = append(rows, gen.Seq{Name: f[0]})
		}
		if i != pos {
			return rows, fmt.Errorf("row %q is at position %d of its block, %d in the first block", f[0], pos, i)
		}
		rows[i].Seq += f[1]
		pos++
	}
	return rows, nil
}

func refStockholm(text string) (gen.Rows, error) {
	ls := strings.Split(text, "\n")
	if len(ls) == 0 || strings.Join(strings.Fields(ls[0]), " ") != "# STOCKHOLM 1.0" {
		return nil, fmt.Errorf("text does not start with '# STOCKHOLM 1.0'")
	}
	var rows gen.Rows
	idx := map[string]int{}
	for _, l := range ls[1:] {
		t := strings.TrimSpace(l)
		if t == "//" {
			return rows, nil
		}
		if t == "" || strings.HasPrefix(l, "#") {
			continue
		}
		name, rest := splitNameRest(l)
		if i, ok := idx[name]; ok {
			rows[i].Seq += stripBlanks(rest)
		} else {
			idx[name] = len(rows)
			rows = append(rows, gen.Seq{Name: name, Seq: stripBlanks(rest)})
		}
	}
	return rows, fmt.Errorf("no // terminator")
}
