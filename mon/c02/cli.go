// cli sub-checks of C02: the round trip through the COMMAND `goalign reformat fasta|phylip|nexus|clustal`.
// The binary is built once per process from the tree under test ($VERIF_REPO) into $VERIF_SCRATCH. A case
// writes the source alignment(s) in the input format (goalign's own writers: they are checked by the other
// sub-checks; the text is verified with the reference readers before it is used), optionally compressed
// (.gz / .xz, encoded here, not by goalign) or piped through stdin, draws a documented flag combination,
// runs the command, takes stdout or the -o file (decoded independently) and reads it with the reference
// readers of ref.go: the alignment(s) read back must be the source alignment(s).
package main

import (
	"bytes"
	"compress/gzip"
	"context"
	"fmt"
	"os"
	"os/exec"
	"path/filepath"
	"strings"
	"time"
	"unicode/utf8"

	"github.com/ulikunitz/xz"

	"github.com/evolbioinfo/goalign/align"

	"verif/lib/fmtio"
	"verif/lib/gen"
	"verif/lib/h"
	"verif/lib/mon"
)

var (
	cliBinPath  string
	cliBuildErr string
	cliTried    bool
)

// cliBinary builds goalign from the tree under test once per process.
func cliBinary() (string, string) {
	if cliTried {
		return cliBinPath, cliBuildErr
	}
	cliTried = true
	repo := os.Getenv("VERIF_REPO")
	if repo == "" {
		repo = "/repo"
	}
	out := filepath.Join(scratchDir(), fmt.Sprintf("c02-goalign-%d", os.Getpid()))
	if os.Getenv("VERIF_SCRATCH") == "" { // a replay by hand: one fixed file, rebuilt every time
		out = filepath.Join(os.TempDir(), "c02-goalign-replay")
	}
	cmd := exec.Command("go", "build", "-o", out, ".")
	cmd.Dir = repo
	env := []string{}
	for _, e := range os.Environ() {
		if !strings.HasPrefix(e, "GOFLAGS=") {
			env = append(env, e)
		}
	}
	cmd.Env = append(env, "GOFLAGS=-mod=mod", "GOPROXY=off", "GOSUMDB=off", "GOTOOLCHAIN=local")
	if b, err := cmd.CombinedOutput(); err != nil {
		cliBuildErr = fmt.Sprintf("go build of %s: %v: %s", repo, err, b)
		return "", cliBuildErr
	}
	cliBinPath = out
	return out, ""
}

type cliRun struct {
	args    []string
	rc      int
	stdout  string
	stderr  string
	crash   bool
	timeout bool
}

// cliTimeout only serves the termination oracle (a command that never returns); a conversion takes milliseconds.
const cliTimeout = 120 * time.Second

func runGoalign(bin, dir string, stdin *string, args ...string) *cliRun {
	ctx, cancel := context.WithTimeout(context.Background(), cliTimeout)
	defer cancel()
	cmd := exec.CommandContext(ctx, bin, args...)
	cmd.Dir = dir
	var eb, ob bytes.Buffer
	cmd.Stderr, cmd.Stdout = &eb, &ob
	if stdin != nil {
		cmd.Stdin = strings.NewReader(*stdin)
	}
	err := cmd.Run()
	r := &cliRun{args: args, stdout: ob.String(), stderr: eb.String()}
	if err != nil {
		r.rc = -1
		if ee, ok := err.(*exec.ExitError); ok {
			r.rc = ee.ExitCode()
		}
	}
	r.timeout = ctx.Err() == context.DeadlineExceeded
	r.crash = strings.Contains(r.stderr, "panic:") || strings.Contains(r.stderr, "goroutine ") || strings.Contains(r.stderr, "fatal error:") || r.rc == 2 || (r.rc < 0 && !r.timeout)
	return r
}

func (r *cliRun) errText() string {
	se := r.stderr
	if i := strings.Index(se, "Usage:"); i >= 0 {
		se = se[:i]
	}
	return strings.TrimSpace(clip(se, 1200))
}

func encode(text, ext string) []byte {
	var b bytes.Buffer
	switch ext {
	case ".gz":
		w := gzip.NewWriter(&b)
		w.Write([]byte(text))
		w.Close()
	case ".xz":
		w, err := xz.NewWriter(&b)
		if err != nil {
			panic("harness: " + err.Error())
		}
		w.Write([]byte(text))
		w.Close()
	default:
		b.WriteString(text)
	}
	return b.Bytes()
}

// ---- reading the output back ----------------------------------------------------------

type outMember struct {
	rows     gen.Rows
	lay      phylipLayout
	datatype string
	text     string
}

// phylipPieces cuts a stream of Phylip alignments written one after the other into its members, by the
// format description alone: header "n L", then lines until each of the n rows holds L residues.
func phylipPieces(text string, strict bool) ([]string, error) {
	ls := lines(text)
	var out []string
	i := 0
	for i < len(ls) {
		if strings.TrimSpace(ls[i]) == "" {
			i++
			continue
		}
		hd := strings.Fields(ls[i])
		var n, L int
		if len(hd) != 2 {
			return out, fmt.Errorf("line %d %q is not a header 'n L'", i+1, ls[i])
		}
		if _, err := fmt.Sscanf(hd[0]+" "+hd[1], "%d %d", &n, &L); err != nil || n <= 0 || L < 0 {
			return out, fmt.Errorf("line %d %q is not a header 'n L'", i+1, ls[i])
		}
		start := i
		i++
		got := make([]int, n)
		k := 0
		for i < len(ls) && (k < n || got[n-1] < L) {
			l := ls[i]
			i++
			if strings.TrimSpace(l) == "" {
				continue
			}
			if k < n {
				rest := ""
				if strict {
					cut, cnt := len(l), 0
					for p := range l {
						if cnt == 10 {
							cut = p
							break
						}
						cnt++
					}
					rest = l[cut:]
				} else {
					_, rest = splitNameRest(l)
				}
				got[k] += len(stripBlanks(rest))
			} else {
				got[k%n] += len(stripBlanks(l))
			}
			k++
		}
		out = append(out, strings.Join(ls[start:i], "\n")+"\n")
	}
	return out, nil
}

func splitAt(text string, isHead func(ls []string, i int) bool) []string {
	ls := lines(text)
	var out []string
	start := -1
	for i := range ls {
		if isHead(ls, i) {
			if start >= 0 {
				out = append(out, strings.Join(ls[start:i], "\n")+"\n")
			}
			start = i
		}
	}
	if start >= 0 {
		out = append(out, strings.Join(ls[start:], "\n")+"\n")
	} else if strings.TrimSpace(text) != "" {
		out = append(out, text)
	}
	return out
}

// readOutput reads the text written by `reformat <sub>` as a list of alignments.
func readOutput(sub, text string, strict bool) ([]outMember, error) {
	var ms []outMember
	switch sub {
	case "fasta":
		rows, err := refFasta(text)
		if err != nil {
			return nil, err
		}
		if len(rows) == 0 {
			return nil, nil
		}
		ms = append(ms, outMember{rows: rows, text: text})
	case "phylip":
		pieces, err := phylipPieces(text, strict)
		if err != nil {
			return nil, err
		}
		for _, p := range pieces {
			rows, lay, err := refPhylip(p, strict)
			if err != nil {
				return ms, fmt.Errorf("alignment %d of the output: %v", len(ms)+1, err)
			}
			ms = append(ms, outMember{rows: rows, lay: lay, text: p})
		}
	case "nexus":
		for _, p := range splitAt(text, func(ls []string, i int) bool { return strings.EqualFold(strings.TrimSpace(ls[i]), "#NEXUS") }) {
			rows, dt, err := refNexus(p)
			if err != nil {
				return ms, fmt.Errorf("alignment %d of the output: %v", len(ms)+1, err)
			}
			ms = append(ms, outMember{rows: rows, datatype: dt, text: p})
		}
	case "clustal":
		// a header line: starts with CLUSTAL and is followed by an empty line (rows are followed by rows or by the
		// conservation line, which starts with blanks)
		for _, p := range splitAt(text, func(ls []string, i int) bool {
			return strings.HasPrefix(ls[i], "CLUSTAL") && (i+1 >= len(ls) || ls[i+1] == "")
		}) {
			rows, err := refClustal(p)
			if err != nil {
				return ms, fmt.Errorf("alignment %d of the output: %v", len(ms)+1, err)
			}
			ms = append(ms, outMember{rows: rows, text: p})
		}
	}
	return ms, nil
}

// ---- the generated conversion ----------------------------------------------------------

var cliOuts = []string{"fasta", "phylip", "nexus", "clustal", "phylip"}
var cliModes = []string{"fasta", "phylip", "phylip-strict", "nexus", "clustal", "stockholm", "auto", "multi", "unaligned"}

type cliPlan struct {
	Out     string    `json:"reformat"`
	Mode    string    `json:"input-mode"`
	InFmt   []string  `json:"input-written-as"`
	Members []alnCase `json:"members"`
	Args    []string  `json:"args"`
	In      string    `json:"input"`
	Dest    string    `json:"output"`
	Accept  string    `json:"oracle"`
}

func truncRunes(s string, n int) string {
	if utf8.RuneCountInString(s) <= n {
		return s
	}
	return string([]rune(s)[:n])
}

func maxNameRunes(rows gen.Rows) int {
	m := 0
	for _, s := range rows {
		if k := utf8.RuneCountInString(s.Name); k > m {
			m = k
		}
	}
	return m
}

func distinctNames(rows gen.Rows) bool {
	seen := map[string]bool{}
	for _, s := range rows {
		if seen[s.Name] {
			return false
		}
		seen[s.Name] = true
	}
	return true
}

func asciiNames(rows gen.Rows) bool {
	for _, s := range rows {
		for i := 0; i < len(s.Name); i++ {
			if s.Name[i] >= 0x80 {
				return false
			}
		}
	}
	return true
}

func phyVariant(r *gen.Rand, strict bool) fmtio.Format {
	for {
		f := phylipFormats[r.Intn(len(phylipFormats))]
		if f.Strict == strict {
			return f
		}
	}
}

func runCli(c *mon.Case) {
	bin, berr := cliBinary()
	if bin == "" {
		// no goalign binary: nothing is observed, the coverage floors of this sub-check stay unmet (inconclusive)
		c.Count("cli:goalign-build-failed")
		c.Note("%s", berr)
		return
	}
	r := c.R
	plan := cliPlan{Out: cliOuts[c.Idx%len(cliOuts)], Mode: cliModes[(c.Idx/len(cliOuts))%len(cliModes)]}
	cycle := c.Idx / (len(cliOuts) * len(cliModes))

	// --- output options (given with every sub command: documented as only used for Phylip output)
	outStrict, oneLine, noBlock := r.Chance(0.4), r.Chance(0.4), r.Chance(0.4)
	if plan.Out == "phylip" {
		// both values for every input mode in every round (the two Phylip slots of a round take one each)
		outStrict = (c.Idx%len(cliOuts) == 4) != (cycle%2 == 1)
	}
	// --- input format and the flags that announce it
	inFamily, inStrict, auto, giveInStrict := plan.Mode, false, false, false
	k := 1
	switch plan.Mode {
	case "phylip-strict":
		inFamily, inStrict, giveInStrict = "phylip", true, true
	case "auto":
		auto = true
		switch cycle % 6 {
		case 0:
			inFamily = "fasta"
		case 1:
			inFamily = "nexus"
		case 2:
			inFamily = "clustal"
		case 3:
			inFamily = "phylip"
		case 4: // strict text, --auto-detect --input-strict
			inFamily, inStrict, giveInStrict = "phylip", true, true
		case 5: // strict text read as the documentation of --auto-detect says: not strict
			inFamily, inStrict = "phylip", true
		}
	case "multi":
		inFamily = "phylip"
		k = r.Range(2, 4)
		if r.Chance(0.2) {
			k = r.Range(16, 24) // more alignments than the 15 the reader's channel buffers
		}
		inStrict = r.Chance(0.4)
		giveInStrict = inStrict
		auto = !inStrict && r.Chance(0.3)
	}
	unaligned := plan.Mode == "unaligned"
	if unaligned {
		// a set of sequences of different lengths: FASTA in, FASTA out (the only documented use of --unaligned)
		plan.Out, inFamily = "fasta", "fasta"
	}
	cleanNames := !unaligned && r.Chance(0.15)
	truncate := plan.Out == "phylip" && outStrict && !inStrict && !cleanNames && r.Chance(0.4)

	outF := fmtio.ByName("fasta")
	switch plan.Out {
	case "phylip":
		outF = fmtio.ByName(map[bool]string{false: "phylip", true: "phylip-strict"}[outStrict])
	case "nexus", "clustal":
		outF = fmtio.ByName(plan.Out)
	}
	// --- the members
	var sources []align.Alignment
	var texts []string
	forced := ""
	switch {
	case cleanNames:
		forced = "clean"
	case truncate:
		forced = "long"
	case (inStrict || (plan.Out == "phylip" && outStrict)) && r.Chance(0.6):
		forced = "strict-boundary"
	}
	for len(plan.Members) < k {
		inF := fmtio.ByName("fasta")
		switch inFamily {
		case "phylip":
			inF = phyVariant(r, inStrict)
		case "nexus", "clustal", "stockholm":
			inF = fmtio.ByName(inFamily)
		}
		var a alnCase
		for tries := 0; ; tries++ {
			n, L := r.Range(1, 6), genLen(r)
			if r.Chance(0.08) {
				n = 1
			}
			prof := nameProfiles[r.Intn(len(nameProfiles))]
			if forced != "" && forced != "clean" {
				prof = forced
			}
			if tries > 4 {
				prof = r.PickStr([]string{"plain", "numeric", "shared-prefix"})
			}
			a = genAlnShape(r, n, L, prof, r.Chance(0.1) && tries < 3)
			if forced == "clean" {
				// one isolated special character between letters: '(' ')' ',' ':' become '-' (docs: "tabs, spaces, newick characters")
				a.Profile = "clean"
				for i := range a.Rows {
					sp := ""
					if inFamily != "nexus" && inFamily != "stockholm" && r.Chance(0.6) {
						sp = string(r.Pick("(),:"))
					}
					a.Rows[i].Name = "s" + gen.Itoa(i) + sp + r.Str(r.Range(1, 4), alnum)
				}
			}
			if forced == "strict-boundary" && tries <= 4 {
				for i := range a.Rows {
					a.Rows[i].Name = truncRunes(a.Rows[i].Name, 10)
				}
			}
			if unaligned {
				// sequences of different lengths, no gap needed
				for i := range a.Rows {
					a.Rows[i].Seq = a.Rows[i].Seq[:r.Range(1, len(a.Rows[i].Seq))]
				}
			}
			if !distinctNames(a.Rows) || !representable(inF, a.Rows) {
				continue
			}
			exp := a.Rows
			if truncate {
				if !asciiNames(a.Rows) {
					continue
				}
			} else if !representable(outF, exp) {
				continue
			}
			break
		}
		var al align.Alignment
		if unaligned {
			// the text of a sequence set: FASTA records (written here; the aligned writer is not involved)
			var sb strings.Builder
			for _, s := range a.Rows {
				sb.WriteString(">" + s.Name + "\n")
				for i := 0; i < len(s.Seq); i += 70 {
					e := i + 70
					if e > len(s.Seq) {
						e = len(s.Seq)
					}
					sb.WriteString(s.Seq[i:e] + "\n")
				}
			}
			texts = append(texts, sb.String())
		} else {
			var ok bool
			if al, ok = mkSource(a.Rows); !ok {
				continue
			}
			texts = append(texts, inF.Write(al))
		}
		plan.Members = append(plan.Members, a)
		plan.InFmt = append(plan.InFmt, inF.Name)
		sources = append(sources, al)
	}
	inText := strings.Join(texts, "")
	alpha := align.BOTH
	if !unaligned {
		alpha = sources[0].Alphabet()
		for _, s := range sources {
			if s.Alphabet() != alpha {
				alpha = align.BOTH // members of both kinds: no --alphabet
			}
		}
	}

	// --- the command line
	dir, err := os.MkdirTemp(scratchDir(), "c02-cli-")
	if err != nil {
		panic("harness: " + err.Error())
	}
	defer os.RemoveAll(dir)
	flags := [][]string{}
	add := func(f ...string) { flags = append(flags, f) }
	var stdin *string
	switch {
	case r.Chance(0.2):
		stdin = &inText
		plan.In = r.PickStr([]string{"stdin (no -i)", "stdin (-i stdin)", "stdin (-i -)"})
		switch plan.In {
		case "stdin (-i stdin)":
			add("-i", "stdin")
		case "stdin (-i -)":
			add("--align", "-")
		}
		c.Count("cli:in:stdin")
	default:
		ext := exts[r.Intn(3)]
		p := filepath.Join(dir, "in.aln"+ext)
		if err := os.WriteFile(p, encode(inText, ext), 0644); err != nil {
			panic("harness: " + err.Error())
		}
		plan.In = "in.aln" + ext
		add(r.PickStr([]string{"-i", "--align"}), p)
		c.Count("cli:in:" + extName(ext))
	}
	outPath, outExt := "", ""
	switch {
	case r.Chance(0.3):
		plan.Dest = r.PickStr([]string{"stdout (no -o)", "stdout (-o stdout)", "stdout (-o -)"})
		switch plan.Dest {
		case "stdout (-o stdout)":
			add("-o", "stdout")
		case "stdout (-o -)":
			add("--output", "-")
		}
		c.Count("cli:out:stdout")
	default:
		outExt = exts[r.Intn(3)]
		outPath = filepath.Join(dir, "out.aln"+outExt)
		plan.Dest = "out.aln" + outExt
		add(r.PickStr([]string{"-o", "--output"}), outPath)
		c.Count("cli:out:" + extName(outExt))
	}
	if auto {
		add("--auto-detect")
		c.Count("cli:flag:--auto-detect")
		if r.Chance(0.4) { // documented: --auto-detect overrides -p, -x and -u
			add(r.PickStr([]string{"-p", "-x", "-u", "--phylip", "--nexus", "--clustal"}))
			c.Count("cli:auto-detect-overrides-a-format-flag")
		}
	} else {
		switch inFamily {
		case "phylip":
			add(r.PickStr([]string{"-p", "--phylip"}))
			c.Count("cli:flag:-p")
			if r.Chance(0.25) { // documented: -x and -u have a lower priority than -p
				add(r.PickStr([]string{"-x", "-u"}))
				c.Count("cli:lower-priority-flag-with--p")
			}
		case "nexus":
			add(r.PickStr([]string{"-x", "--nexus"}))
			c.Count("cli:flag:-x")
			if r.Chance(0.4) { // documented: -u has a lower priority than -x
				add("-u")
				c.Count("cli:lower-priority-flag-with--x")
			}
		case "clustal":
			add(r.PickStr([]string{"-u", "--clustal"}))
			c.Count("cli:flag:-u")
		case "stockholm":
			add(r.PickStr([]string{"-k", "--stockholm"}))
			c.Count("cli:flag:-k")
		default:
			c.Count("cli:flag:(fasta-by-default)")
		}
	}
	if giveInStrict || (inFamily != "phylip" && r.Chance(0.15)) {
		add("--input-strict")
		c.Count("cli:flag:--input-strict")
	}
	if outStrict {
		add("--output-strict")
		c.Count("cli:flag:--output-strict")
	}
	if oneLine {
		add("--one-line")
		c.Count("cli:flag:--one-line")
	}
	if noBlock {
		add("--no-block")
		c.Count("cli:flag:--no-block")
	}
	if inFamily == "phylip" && plan.Out == "phylip" {
		c.Count(fmt.Sprintf("cli:phylip-to-phylip:input-strict=%v,output-strict=%v", giveInStrict, outStrict))
	}
	expAlpha := alpha
	if alpha != align.BOTH {
		switch x := r.Intn(20); {
		case x < 3:
			add("--alphabet", "auto")
			c.Count("cli:flag:--alphabet=auto")
		case x < 6:
			add("--alphabet", map[int]string{align.NUCLEOTIDS: "nt", align.AMINOACIDS: "aa"}[alpha])
			c.Count("cli:flag:--alphabet=same")
		case x < 12 && alpha == align.NUCLEOTIDS && !unaligned:
			// IUPAC nucleotide codes other than U are amino acid letters too: the alignment is "considered as" protein
			okAll := true
			for _, m := range plan.Members {
				okAll = okAll && !strings.ContainsAny(strings.ToUpper(m.Rows.Key()), "UO")
			}
			if okAll {
				add("--alphabet", "aa")
				expAlpha = align.AMINOACIDS
				c.Count("cli:flag:--alphabet=aa-on-nucleotide-letters")
			}
		}
	}
	if r.Chance(0.25) {
		add("--ignore-identical", gen.Itoa(r.Intn(3))) // names are distinct: it must not matter
		c.Count("cli:flag:--ignore-identical")
	}
	if r.Chance(0.1) {
		add("-t", "2")
		c.Count("cli:flag:-t")
	}
	if r.Chance(0.1) {
		add("--seed", "5")
		c.Count("cli:flag:--seed")
	}
	if cleanNames {
		add("--clean-names")
		c.Count("cli:flag:--clean-names")
	}
	if unaligned {
		add("--unaligned")
		c.Count("cli:flag:--unaligned")
		if r.Chance(0.3) { // documented: phylip, nexus, ... options are ignored
			add(r.PickStr([]string{"-p", "-x", "-u"}))
		}
	}
	args := []string{"reformat", plan.Out}
	for _, i := range r.Perm(len(flags)) {
		args = append(args, flags[i]...)
	}
	plan.Args = args

	// --- what must come out
	expected := make([]gen.Rows, len(plan.Members))
	for i, m := range plan.Members {
		rows := m.Rows.Clone()
		for j := range rows {
			if cleanNames {
				rows[j].Name = strings.Map(func(c rune) rune {
					if strings.ContainsRune("(),:", c) {
						return '-'
					}
					return c
				}, rows[j].Name)
			}
			if truncate {
				rows[j].Name = truncRunes(rows[j].Name, 10)
			}
		}
		expected[i] = rows
	}
	ten := false
	for _, m := range plan.Members {
		for _, s := range m.Rows {
			ten = ten || utf8.RuneCountInString(s.Name) == 10
		}
	}
	plan.Accept = "exact"
	if auto && inStrict && ten {
		if giveInStrict {
			// --input-strict is documented as "only used with -p" and --auto-detect as "phylip considered as not strict":
			// the strict reading gives the source, the relaxed reading cannot read a name that touches the residues
			plan.Accept = "source-or-error"
		} else {
			plan.Accept = "no-crash" // a strict file with 10 character names read as relaxed Phylip: outside the documented use
		}
	}
	c.Input(plan)
	c.Count("cli:runs")
	c.Count("cli:reformat-" + plan.Out)
	c.Count("cli:mode:" + plan.Mode)
	c.Count("cli:input-format:" + inFamily + map[bool]string{true: "-strict", false: ""}[inStrict])
	if ten && inStrict {
		c.Count("cli:strict-input-with-10-character-name")
	}
	if ten && plan.Out == "phylip" && outStrict {
		c.Count("cli:strict-output-with-10-character-name")
	}
	if auto {
		c.Count("cli:auto-detect:" + inFamily + map[bool]string{true: "-strict", false: ""}[inStrict] + map[bool]string{true: "+input-strict", false: ""}[giveInStrict])
	}
	if k > 1 {
		c.Count("cli:several-alignments")
		c.Count("cli:several-alignments:reformat-" + plan.Out)
	}
	if truncate {
		for _, m := range plan.Members {
			if maxNameRunes(m.Rows) > 10 {
				c.Count("cli:strict-output-truncates-long-names")
				break
			}
		}
	}

	// the input text is what it is meant to be (reference reader of the input format)
	if !unaligned {
		for i, t := range texts {
			f := fmtio.ByName(plan.InFmt[i])
			if !checkText(c, f, plan.Members[i].Rows, sources[i].Alphabet(), t) {
				return
			}
		}
	}
	c.Checkpoint()
	run := runGoalign(bin, dir, stdin, args...)
	fail := func(kind, format string, a ...interface{}) {
		c.Failf("cli:reformat-"+plan.Out+":"+kind, "goalign %s\n%s\ninput (%s, written as %v, %d alignment(s)):\n%s\nexit status %d, stderr: %s", strings.Join(args, " "),
			fmt.Sprintf(format, a...), plan.In, plan.InFmt, k, clip(inText, 1500), run.rc, run.errText())
	}
	if run.timeout {
		fail("hang", "the command did not return within %v", cliTimeout)
		return
	}
	if run.crash {
		fail("crash", "the command crashed")
		return
	}
	if plan.Accept == "no-crash" {
		c.Count("cli:outcome:outside-documented-use")
		return
	}
	if run.rc != 0 {
		if plan.Accept == "source-or-error" {
			c.Count("cli:outcome:documented-relaxed-reading")
			return
		}
		fail("valid-rejected", "the command fails on a valid conversion")
		return
	}
	// the text written
	var outText string
	if outPath == "" {
		outText = run.stdout
	} else {
		if run.stdout != "" {
			fail("stdout-with-o", "-o is given and %d bytes are written on stdout: %q", len(run.stdout), clip(run.stdout, 200))
			return
		}
		var err error
		if outText, err = readFileIndependently(outPath, outExt); err != nil {
			fail("output-file", "the output file %s is not a readable %s file: %v", plan.Dest, extName(outExt), err)
			return
		}
	}
	got, err := readOutput(plan.Out, outText, outStrict)
	failOut := func(kind, format string, a ...interface{}) {
		fail(kind, "%s\noutput (%s):\n%s", fmt.Sprintf(format, a...), plan.Dest, clip(outText, 1500))
	}
	if err != nil {
		failOut("malformed", "the reference reader of the output format cannot read the output: %v", err)
		return
	}
	// how many alignments: fasta takes the first one only, phylip and nexus all of them (documented); clustal
	// says nothing: the first one or all
	want := expected
	switch plan.Out {
	case "fasta":
		want = expected[:1]
	case "clustal":
		if len(got) == 1 {
			want = expected[:1]
		}
	}
	if len(got) != len(want) {
		failOut("count", "the output holds %d alignment(s), %d expected (the input holds %d)", len(got), len(want), k)
		return
	}
	for i := range want {
		if !h.EqRows(got[i].rows, want[i]) {
			failOut("content", "alignment %d of the output is not alignment %d of the input;\nread back %s\nexpected  %s", i+1, i+1, h.Show(got[i].rows), h.Show(want[i]))
			return
		}
		switch plan.Out {
		case "phylip":
			n, lay := len(want[i]), got[i].lay
			if oneLine && lay.nonEmptyLines != n {
				failOut("one-line-option", "--one-line: alignment %d has %d non empty lines after its header for %d sequences", i+1, lay.nonEmptyLines, n)
				return
			}
			if noBlock && lay.blankInside {
				failOut("no-block-option", "--no-block: alignment %d has a blank inside the residues of a line", i+1)
				return
			}
			if !noBlock && (lay.maxChunk > 10 || lay.shortInner) {
				failOut("block-option", "no --no-block: blocks of alignment %d are not 10 residues long (longest %d, short inner block %v)", i+1, lay.maxChunk, lay.shortInner)
				return
			}
			if !oneLine && lay.nonEmptyLines == n && len(want[i][0].Seq) > 250 {
				// the documentation only says that --one-line puts a sequence on one single line; without it a long
				// sequence is expected on several lines (any width)
				failOut("one-line-default", "no --one-line: the %d residues of each sequence of alignment %d are on one single line", len(want[i][0].Seq), i+1)
				return
			}
			if outStrict && lay.firstResCol != 11 {
				failOut("strict-option", "--output-strict: first residue of alignment %d at column %d, not 11", i+1, lay.firstResCol)
				return
			}
		case "nexus":
			// each member has its own detected alphabet, unless --alphabet overrides it
			wantDt, a := "dna", sources[i].Alphabet()
			if expAlpha != alpha {
				a = expAlpha
			}
			if a == align.AMINOACIDS {
				wantDt = "protein"
			}
			if got[i].datatype != wantDt {
				failOut("datatype", "alignment %d: datatype=%s written for a %s alignment", i+1, got[i].datatype, alphaName(a))
				return
			}
		}
	}
	c.Count("cli:outcome:ok")
	if plan.Accept == "source-or-error" {
		c.Count("cli:outcome:strict-reading")
	}
	L := len(plan.Members[0].Rows[0].Seq)
	if len(plan.Members[0].Rows) >= 2 && (L > 10 || k > 1) {
		c.NonTrivial("cli", strings.Join(args[:2], " "), plan.Mode, plan.Members[0].Rows.Key())
	}
	c.Note("goalign %s: %d alignment(s) of the input (%v) read back identical from %s", strings.Join(args, " "), len(want), plan.InFmt, plan.Dest)
}

// ---- refused input -------------------------------------------------------------------

type refusal struct {
	what     string
	mustFail bool
	text     *string  // content of the input file; nil: there is no input file
	flags    []string // input flags
}

func runCliRefused(c *mon.Case) {
	bin, berr := cliBinary()
	if bin == "" {
		c.Count("cli:goalign-build-failed")
		c.Note("%s", berr)
		return
	}
	r := c.R
	empty := ""
	a := genAlnShape(r, r.Range(2, 4), r.PickInt([]int{5, 61, 130}), "plain", false)
	al, _ := mkSource(a.Rows)
	textOf := func(name string) *string { s := fmtio.ByName(name).Write(al); return &s }
	flagOf := map[string]string{"fasta": "", "phylip": "-p", "nexus": "-x", "clustal": "-u", "stockholm": "-k"}
	var cases []refusal
	cases = append(cases, refusal{"input file that does not exist", true, nil, []string{r.PickStr([]string{"", "-p", "-x", "-u", "-k", "--auto-detect"})}})
	for _, fl := range []string{"", "-x", "-u", "-k", "--auto-detect"} {
		cases = append(cases, refusal{"empty input file", true, &empty, []string{fl}})
	}
	// an empty Phylip file is a list of no alignment: nothing to write or an error, never a crash
	cases = append(cases, refusal{"empty input file", false, &empty, []string{"-p"}}, refusal{"empty input file", false, &empty, []string{"-p", "--input-strict"}})
	cases = append(cases, refusal{"unknown alphabet", true, textOf("fasta"), []string{"--alphabet", r.PickStr([]string{"dna", "protein", "NT", "both", ""})}})
	cases = append(cases, refusal{"unknown flag", true, textOf("fasta"), []string{r.PickStr([]string{"--strict", "--inputstrict", "-z", "--output-format"})}})
	cases = append(cases, refusal{"output file in a directory that does not exist", true, textOf("fasta"), []string{"-o", "/nonexistent-dir-c02/out.fa"}})
	// a text of one format announced as another one: an error or whatever the other format makes of it, never a crash
	fams := []string{"fasta", "phylip", "nexus", "clustal", "stockholm"}
	for _, w := range fams {
		for _, as := range fams {
			if w != as {
				cases = append(cases, refusal{w + " text announced as " + as, (w == "fasta" || as == "fasta" || as == "nexus" || as == "clustal" || as == "stockholm") && !(w == "stockholm" && as == "nexus"), textOf(w), []string{flagOf[as]}})
			}
		}
	}
	// the text cut in the middle
	for _, w := range fams {
		t := *textOf(w)
		t = t[:r.Range(1, len(t)-2)]
		cases = append(cases, refusal{w + " text cut in the middle", false, &t, []string{flagOf[w]}})
	}
	k := cases[c.Idx%len(cases)]
	out := cliOuts[(c.Idx+c.Idx/len(cases))%4] // every refusal meets every sub command within 4 rounds
	dir, err := os.MkdirTemp(scratchDir(), "c02-cli-")
	if err != nil {
		panic("harness: " + err.Error())
	}
	defer os.RemoveAll(dir)
	in := filepath.Join(dir, "in.aln")
	if k.text != nil {
		os.WriteFile(in, []byte(*k.text), 0644)
	}
	args := []string{"reformat", out, "-i", in}
	for _, f := range k.flags {
		if f != "" || len(k.flags) > 1 {
			args = append(args, f)
		}
	}
	c.Input(map[string]interface{}{"what": k.what, "args": args, "text": k.text})
	c.Checkpoint()
	run := runGoalign(bin, dir, nil, args...)
	c.Count("cli:refused:runs")
	class := k.what
	if i := strings.Index(class, " text "); i >= 0 {
		class = "format" + class[i:]
		if j := strings.Index(class, " as "); j >= 0 {
			class = class[:j+3] + " another format"
		}
	}
	c.Count("cli:refused:" + class)
	fail := func(kind, format string, a ...interface{}) {
		c.Failf("cli:refused:"+kind, "goalign %s\n%s: %s\ninput text: %q\nexit status %d, stderr: %s", strings.Join(args, " "), k.what, fmt.Sprintf(format, a...), clip(fmt.Sprint(derefOr(k.text, "(no file)")), 600), run.rc, run.errText())
	}
	switch {
	case run.timeout:
		fail("hang", "the command did not return within %v", cliTimeout)
	case run.crash:
		fail("crash", "the command crashed instead of reporting an error")
	case k.mustFail && run.rc == 0:
		fail("accepted", "exit status 0 and %d bytes written: %q", len(run.stdout), clip(run.stdout, 300))
	case k.mustFail && strings.TrimSpace(run.stderr) == "" && strings.TrimSpace(run.stdout) == "":
		fail("no-message", "non zero exit status without any message")
	default:
		if run.rc != 0 {
			c.Count("cli:refused:outcome:error")
		} else {
			c.Count("cli:refused:outcome:accepted")
		}
	}
	c.NonTrivial("cli-refused", out, k.what, strings.Join(k.flags, " "))
	c.Note("goalign %s (%s): exit status %d", strings.Join(args, " "), k.what, run.rc)
}

func derefOr(s *string, d string) string {
	if s == nil {
		return d
	}
	return *s
}

// cliFloors: every sub command, input mode, flag and destination of the cli sub-checks must have been exercised.
func cliFloors() {
	mon.Floor("cli:runs", 270)
	mon.Floor("cli:outcome:ok", 230)
	for _, o := range []string{"fasta", "nexus", "clustal"} {
		mon.Floor("cli:reformat-"+o, 40)
		mon.Floor("cli:several-alignments:reformat-"+o, 4)
	}
	mon.Floor("cli:reformat-phylip", 80)
	mon.Floor("cli:several-alignments:reformat-phylip", 8)
	for _, m := range cliModes {
		mon.Floor("cli:mode:"+m, 30)
	}
	for _, f := range []string{"fasta", "phylip", "phylip-strict", "nexus", "clustal", "stockholm"} {
		mon.Floor("cli:input-format:"+f, 30)
	}
	for _, f := range []string{"-p", "-x", "-u", "-k", "(fasta-by-default)", "--auto-detect", "--input-strict", "--output-strict", "--one-line", "--no-block", "--unaligned"} {
		mon.Floor("cli:flag:"+f, 30)
	}
	for _, f := range []string{"--alphabet=auto", "--alphabet=same", "--ignore-identical", "-t", "--seed", "--clean-names"} {
		mon.Floor("cli:flag:"+f, 3)
	}
	mon.Floor("cli:flag:--alphabet=aa-on-nucleotide-letters", 2)
	for _, a := range []string{"fasta", "nexus", "clustal", "phylip", "phylip-strict+input-strict", "phylip-strict"} {
		mon.Floor("cli:auto-detect:"+a, 4)
	}
	for _, a := range []bool{false, true} {
		for _, b := range []bool{false, true} {
			mon.Floor(fmt.Sprintf("cli:phylip-to-phylip:input-strict=%v,output-strict=%v", a, b), 5)
		}
	}
	for _, e := range []string{"plain", "gz", "xz"} {
		mon.Floor("cli:in:"+e, 40)
		mon.Floor("cli:out:"+e, 35)
	}
	mon.Floor("cli:in:stdin", 30)
	mon.Floor("cli:out:stdout", 50)
	mon.Floor("cli:strict-input-with-10-character-name", 10)
	mon.Floor("cli:strict-output-with-10-character-name", 3)
	mon.Floor("cli:strict-output-truncates-long-names", 2)
	mon.Floor("cli:auto-detect-overrides-a-format-flag", 5)
	mon.Floor("cli:lower-priority-flag-with--p", 5)
	mon.Floor("cli:lower-priority-flag-with--x", 3)
	mon.Floor("cli:refused:runs", 108)
	for _, k := range []string{"input file that does not exist", "empty input file", "unknown alphabet", "unknown flag", "output file in a directory that does not exist", "format text announced as another format", "format text cut in the middle"} {
		mon.Floor("cli:refused:"+k, 1)
	}
}
