// long sub-check of C02: rows of 4 097 ... 70 000 residues (just above the 4 096 byte buffer of bufio, above 2^16)
// through every format and option set: Nexus and Stockholm write a row on ONE line, so the length of a token is
// the length of the alignment there.
package main

import (
	"fmt"
	"strings"

	"github.com/evolbioinfo/goalign/align"

	"verif/lib/fmtio"
	"verif/lib/gen"
	"verif/lib/h"
	"verif/lib/mon"
)

var longLens = []int{4097, 4098, 4100, 5000, 8192, 8193, 20000, 65537, 70001}

func runLong(c *mon.Case) {
	r := c.R
	f := fmtio.All[c.Idx%len(fmtio.All)]
	L := longLens[(c.Idx/len(fmtio.All))%len(longLens)]
	protein := r.Bool()
	alpha, code := "ACGTACGTACGTRYN-", align.NUCLEOTIDS
	if protein {
		alpha, code = gen.AaCore+"X-", align.AMINOACIDS
	}
	n := r.Range(1, 3)
	rows := make(gen.Rows, n)
	for i := range rows {
		rows[i] = gen.Seq{Name: "s" + gen.Itoa(i), Seq: r.Str(L, alpha)}
	}
	c.Input(map[string]interface{}{"format": f.Name, "rows": n, "length": L, "protein": protein})
	txt := f.Write(h.MkAlign(rows, code))
	back, err := f.Parse(strings.NewReader(txt), align.IGNORE_NONE, align.BOTH)
	if err != nil {
		c.Failf(f.Name+":long:error", "%d rows of %d residues written by goalign are refused by its own parser: %v", n, L, err)
		return
	}
	got := h.Snap(back)
	if len(got) != n {
		c.Failf(f.Name+":long:rows", "%d rows of %d residues come back as %d rows", n, L, len(got))
		return
	}
	for i := range got {
		if got[i].Name != rows[i].Name || got[i].Seq != rows[i].Seq {
			d := 0
			for d < len(got[i].Seq) && d < L && got[i].Seq[d] == rows[i].Seq[d] {
				d++
			}
			c.Failf(f.Name+":long:content", "row %d (%q) of %d residues comes back as %q with %d residues, first difference at residue %d", i, rows[i].Name, L, got[i].Name, len(got[i].Seq), d)
			return
		}
	}
	c.Count("long:" + f.Name)
	c.NonTrivial("long", f.Name, fmt.Sprint(L, n, protein, c.Idx))
}
