// cli sub-check of C12: the same rule through `goalign clean sites` / `goalign clean seqs`
// (cmd/cleansites.go, cmd/cleanseqs.go): the binary is built from the tree under test
// (VERIF_REPO) into the scratch directory; every case writes a FASTA file, runs the command
// and reads back the cleaned alignment, the --positions / --positions-rm files and the
// counts printed on stderr.
package main

import (
	"bytes"
	"fmt"
	"os"
	"os/exec"
	"path/filepath"
	"regexp"
	"strconv"
	"strings"

	"verif/lib/gen"
	"verif/lib/mon"
)

var cliBin, cliDir, cliBuildErr string

func cliSetup() bool {
	if cliBin != "" {
		return true
	}
	if cliBuildErr != "" {
		return false
	}
	repo := os.Getenv("VERIF_REPO")
	if repo == "" {
		repo = "/repo"
	}
	scratch := os.Getenv("VERIF_SCRATCH")
	if scratch == "" {
		scratch = os.TempDir()
	}
	dir, err := os.MkdirTemp(scratch, "c12-cli-")
	if err != nil {
		cliBuildErr = err.Error()
		fmt.Fprintln(os.Stderr, "c12 cli: "+cliBuildErr)
		return false
	}
	bin := filepath.Join(dir, "goalign")
	cmd := exec.Command("go", "build", "-o", bin, ".")
	cmd.Dir = repo
	env := []string{}
	for _, e := range os.Environ() {
		if !strings.HasPrefix(e, "GOFLAGS=") {
			env = append(env, e)
		}
	}
	cmd.Env = append(env, "GOFLAGS=-mod=readonly", "GOPROXY=off", "GOSUMDB=off", "GOTOOLCHAIN=local")
	if out, err := cmd.CombinedOutput(); err != nil {
		cliBuildErr = fmt.Sprintf("go build of %s failed: %v\n%s", repo, err, out)
		fmt.Fprintln(os.Stderr, "c12 cli: "+cliBuildErr)
		os.RemoveAll(dir)
		return false
	}
	cliBin, cliDir = bin, dir
	return true
}

type cliCase struct {
	Kind    string    `json:"kind"` // sites | seqs
	AA      bool      `json:"protein"`
	Rows    gen.Rows  `json:"rows"`
	Char    string    `json:"char"`
	Opts    cleanOpts `json:"opts"` // what the flags mean
	Args    []string  `json:"args"`
	Refusal bool      `json:"refusal_documented"`
}

// fixed command line witnesses
var cliWitnesses = []cliCase{
	// `clean sites --ignore-n` with the default character (GAP): column 0 has 1 gap among the 2 non N rows
	{Kind: "sites", Rows: mkRows([]string{"A-CC", "N-CN", "N-CN", "--C-"}), Char: "GAP", Opts: cleanOpts{Chars: "-", Cutoff: 0.5, IgnNs: true}},
	{Kind: "sites", Rows: mkRows([]string{"A-CC", "N-CN", "N-CN", "--C-"}), Char: "-", Opts: cleanOpts{Chars: "-", Cutoff: 0.5, IgnNs: true}},
	{Kind: "sites", AA: true, Rows: mkRows([]string{"A-LL", "X-LX", "x-LX", "--L-"}), Char: "GAP", Opts: cleanOpts{Chars: "-", Cutoff: 0.5, IgnNs: true, Ends: true}},
	{Kind: "seqs", Rows: mkRows([]string{"ANN-", "AXX-", "Ann-", "ACC-"}), Char: "GAP", Opts: cleanOpts{Chars: "-", Cutoff: 0.5, IgnNs: true}},
	// each ignore flag alone, on inputs where taking one for the other changes the outcome
	{Kind: "sites", Rows: mkRows([]string{"N-C", "N-C", "AAC", "AAG", "AAT"}), Char: "MAJ", Opts: cleanOpts{Maj: true, Cutoff: 0.75, IgnNs: true}},
	{Kind: "sites", Rows: mkRows([]string{"N-C", "N-C", "AAC", "AAG", "AAT"}), Char: "MAJ", Opts: cleanOpts{Maj: true, Cutoff: 0.75, IgnGaps: true}},
	{Kind: "sites", AA: true, Rows: mkRows([]string{"X-L", "x-L", "AAL", "AAG", "AAT"}), Char: "MAJ", Opts: cleanOpts{Maj: true, Cutoff: 0.75, IgnNs: true, Ends: true}},
	{Kind: "seqs", Rows: mkRows([]string{"A--C", "ANNC", "AA-N", "CCCC"}), Char: "A", Opts: cleanOpts{Chars: "A", Cutoff: 0.5, IgnGaps: true}},
	{Kind: "seqs", Rows: mkRows([]string{"A--C", "ANNC", "AA-N", "CCCC"}), Char: "A", Opts: cleanOpts{Chars: "A", Cutoff: 0.5, IgnNs: true}},
	{Kind: "seqs", AA: true, Rows: mkRows([]string{"a--L", "AXxL", "Aa-X", "LLLL"}), Char: "a", Opts: cleanOpts{Chars: "a", Cutoff: 0.5, IgnNs: true, IgnCase: true}},
	{Kind: "sites", Rows: mkRows([]string{"A-NA", "C-NA", "ANAC", "A-AC"}), Char: "A", Opts: cleanOpts{Chars: "A", Cutoff: 0.75, IgnGaps: true}},
	{Kind: "sites", Rows: mkRows([]string{"A-NA", "C-NA", "ANAC", "A-AC"}), Char: "A", Opts: cleanOpts{Chars: "A", Cutoff: 0.75, IgnNs: true}},
	{Kind: "sites", Rows: mkRows([]string{"-AC-A-", "-CC-C-", "-AA-A-"}), Char: "-", Opts: cleanOpts{Chars: "-", Cutoff: 1, Ends: true}},
	{Kind: "sites", Rows: mkRows([]string{"AACAAA", "ACCACA", "AAAAAA"}), Char: "A", Opts: cleanOpts{Chars: "A", Cutoff: 1, Ends: true}},
	{Kind: "sites", Rows: mkRows([]string{"AACAAA", "ACCACA", "AAAAAA"}), Char: "MAJ", Opts: cleanOpts{Maj: true, Cutoff: 1, Ends: true}},
	{Kind: "sites", Rows: mkRows([]string{"aACA", "aCCA", "AAAa"}), Char: "aG", Opts: cleanOpts{Chars: "aG", Cutoff: 0.5, IgnCase: true, Reverse: true}},
}

func cliArgs(k *cliCase, in, out, pos, rmpos string) []string {
	o := k.Opts
	a := []string{"clean", k.Kind, "-i", in, "-o", out, "--cutoff=" + strconv.FormatFloat(o.Cutoff, 'g', -1, 64), "--alphabet", alphaName(k.AA), "--char=" + k.Char}
	if k.Kind == "sites" {
		a = append(a, "--positions", pos, "--positions-rm", rmpos)
		if o.Ends {
			a = append(a, "--ends")
		}
		if o.Reverse {
			a = append(a, "--reverse")
		}
	}
	if o.IgnCase {
		a = append(a, "--ignore-case")
	}
	if o.IgnGaps {
		a = append(a, "--ignore-gaps")
	}
	if o.IgnNs {
		a = append(a, "--ignore-n")
	}
	return a
}

func genCli(r *gen.Rand) cliCase {
	k := cliCase{Kind: "sites", AA: r.Bool()}
	if r.Chance(0.35) {
		k.Kind = "seqs"
	}
	n := r.PickInt([]int{1, 2, 3, 4, 4, 5, 6, 8})
	L := r.PickInt([]int{1, 2, 3, 4, 6, 8, 8, 12, 20})
	mix := "ACGTacgt-NnX"
	if k.AA {
		mix = "ARNDLarnd-XxN"
	}
	w := wildcard(k.AA)
	target := byte('-')
	if r.Chance(0.4) {
		target = r.Pick(mix)
	}
	bs := make([][]byte, n)
	for i := range bs {
		bs[i] = make([]byte, L)
	}
	for j := 0; j < L; j++ {
		d := r.PickF([]float64{0, 0.25, 0.5, 0.75, 1})
		for i := 0; i < n; i++ {
			switch {
			case r.Chance(d):
				bs[i][j] = target
			case r.Chance(0.25):
				bs[i][j] = w
			default:
				bs[i][j] = r.Pick(mix)
			}
		}
	}
	seqs := make([]string, n)
	for i := range seqs {
		seqs[i] = string(bs[i])
	}
	k.Rows = mkRows(seqs)
	o := cleanOpts{IgnNs: r.Bool()}
	switch x := r.Intn(10); {
	case x < 3: // gaps
		k.Char = r.PickStr([]string{"GAP", "-"})
		o.Chars = "-"
		if k.Kind == "sites" {
			o.Ends = r.Bool()
			if r.Chance(0.1) {
				o.IgnGaps = true // documented refusal
				k.Refusal = true
			}
		}
	case x < 5 && k.Kind == "sites":
		k.Char = "MAJ"
		o.Maj = true
		o.Ends = r.Bool()
		o.IgnGaps = r.Bool()
	default:
		if k.Kind == "sites" {
			o.Chars = genChars(r, mix, target, k.AA)
			if o.Chars == "GAP" || o.Chars == "MAJ" {
				o.Chars = "A"
			}
			o.Ends = r.Bool()
			o.Reverse = r.Chance(0.3)
		} else {
			o.Chars = string(genChars(r, mix, target, k.AA)[0])
		}
		o.IgnCase = r.Bool()
		o.IgnGaps = r.Bool()
		k.Char = o.Chars
		if o.Chars == "-" {
			// goes through the gap branch of the command: ignore-case / reverse / ignore-gaps are not forwarded
			o.IgnCase, o.Reverse = false, false
			if k.Kind == "seqs" {
				o.IgnGaps = false
			}
		}
		if k.Kind == "sites" && ((o.IgnGaps && strings.Contains(o.Chars, "-")) || (o.IgnNs && strings.ContainsAny(o.Chars, "Nn"))) {
			k.Refusal = true
		}
	}
	cols := seqs
	if k.Kind == "sites" {
		cols = columns(seqs)
	}
	o.Cutoff = genCutoff(r, cols, k.AA, &o)
	k.Opts = o
	return k
}

func parseFasta(b []byte) gen.Rows {
	rows := gen.Rows{}
	for _, ln := range strings.Split(string(b), "\n") {
		ln = strings.TrimRight(ln, "\r")
		if strings.HasPrefix(ln, ">") {
			rows = append(rows, gen.Seq{Name: ln[1:]})
		} else if len(rows) > 0 {
			rows[len(rows)-1].Seq += strings.TrimSpace(ln)
		}
	}
	return rows
}

func parseInts(b []byte) ([]int, error) {
	out := []int{}
	for _, f := range strings.Fields(string(b)) {
		v, err := strconv.Atoi(f)
		if err != nil {
			return nil, err
		}
		out = append(out, v)
	}
	return out, nil
}

func reInt(re *regexp.Regexp, s string) int {
	m := re.FindStringSubmatch(s)
	if m == nil {
		return -999
	}
	v, _ := strconv.Atoi(m[1])
	return v
}

var (
	reBefore  = regexp.MustCompile(`length before cleaning=(-?\d+)`)
	reAfter   = regexp.MustCompile(`length after cleaning=(-?\d+)`)
	reStart   = regexp.MustCompile(`number of start .*=(-?\d+)`)
	reEnd     = regexp.MustCompile(`number of end .*=(-?\d+)`)
	reSBefore = regexp.MustCompile(`#seqs before cleaning=(-?\d+)`)
	reSAfter  = regexp.MustCompile(`#seqs after cleaning=(-?\d+)`)
	reSRm     = regexp.MustCompile(`removed sequences=(-?\d+)`)
)

func runCli(c *mon.Case) {
	if !cliSetup() {
		return // the floors cli:* are missed: INCONCLUSIVE, not a violation
	}
	var k cliCase
	if c.Idx < len(cliWitnesses) {
		k = cliWitnesses[c.Idx]
	} else {
		k = genCli(c.R)
	}
	in := filepath.Join(cliDir, "in.fa")
	out := filepath.Join(cliDir, "out.fa")
	pos := filepath.Join(cliDir, "pos.txt")
	rmpos := filepath.Join(cliDir, "rmpos.txt")
	for _, f := range []string{out, pos, rmpos} {
		os.Remove(f)
	}
	var fa bytes.Buffer
	for _, r := range k.Rows {
		fmt.Fprintf(&fa, ">%s\n%s\n", r.Name, r.Seq)
	}
	if err := os.WriteFile(in, fa.Bytes(), 0644); err != nil {
		panic("harness: " + err.Error())
	}
	k.Args = cliArgs(&k, in, out, pos, rmpos)
	if c.Verbose { // single case replay: do not leave the binary behind
		defer func() { os.RemoveAll(cliDir); cliBin, cliDir = "", "" }()
	}
	c.Input(k)
	cmd := exec.Command(cliBin, k.Args...)
	cmd.Dir = cliDir
	var stderr, stdout bytes.Buffer
	cmd.Stderr, cmd.Stdout = &stderr, &stdout
	err := cmd.Run()
	op := "clean-" + k.Kind
	ctx := func() string {
		return fmt.Sprintf("\ngoalign %s\ninput:\n%sstderr:\n%s", strings.Join(k.Args, " "), fa.String(), stderr.String())
	}
	if err != nil {
		if k.Refusal {
			c.Count("cli:documented-refusal")
			c.Note("refused: %s", strings.TrimSpace(firstLine(stderr.String())))
			return
		}
		c.Failf(op+":command-failed", "%v%s", err, ctx())
		return
	}
	ob, _ := os.ReadFile(out)
	after := parseFasta(ob)
	c.Count("cli:" + k.Kind)
	o := k.Opts
	L := len(k.Rows[0].Seq)
	var st callStats
	if k.Kind == "sites" {
		pb, e1 := os.ReadFile(pos)
		rb, e2 := os.ReadFile(rmpos)
		kept, e3 := parseInts(pb)
		rm, e4 := parseInts(rb)
		if e1 != nil || e2 != nil || e3 != nil || e4 != nil {
			c.Failf(op+":positions-files", "cannot read the position files: %v %v %v %v%s", e1, e2, e3, e4, ctx())
			return
		}
		se := stderr.String()
		first, last := reInt(reStart, se), reInt(reEnd, se)
		length := reInt(reAfter, se)
		if b := reInt(reBefore, se); b != L {
			c.Failf(op+":reported-length", "length before cleaning reported as %d, input has %d columns%s", b, L, ctx())
		}
		if len(after) > 0 && length != len(after[0].Seq) {
			c.Failf(op+":reported-length", "length after cleaning reported as %d, output has %d columns%s", length, len(after[0].Seq), ctx())
		}
		st = checkSites(c, op, k.Rows, k.AA, o, first, last, kept, rm, after, length)
	} else {
		se := stderr.String()
		nret := reInt(reSRm, se)
		if b := reInt(reSBefore, se); b != len(k.Rows) {
			c.Failf(op+":reported-count", "#seqs before cleaning reported as %d, input has %d%s", b, len(k.Rows), ctx())
		}
		length := L
		st = checkSeqs(c, op, k.Rows, k.AA, o, nret, after, length, reInt(reSAfter, se))
	}
	countCall(c, op, k.AA, &o, st)
	c.Count("cli-char:" + map[bool]string{true: k.Char, false: "other"}[k.Char == "GAP" || k.Char == "MAJ" || k.Char == "-"])
	if o.IgnNs {
		c.Count("cli:ignore-n")
	}
	if st.nonTrivial() {
		c.NonTrivial(k.Kind, k.Rows.Key(), k.Char, optKey(&o))
	}
	c.Note("%d of %d units removed", st.removed, st.units)
}

func firstLine(s string) string {
	if i := strings.Index(s, "\n"); i >= 0 {
		return s[:i]
	}
	return s
}
