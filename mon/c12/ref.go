// Reference model of the cleaning rule of property C12, written from the
// statement and from the documentation (interface comments of RemoveGapSites /
// RemoveCharacterSites / RemoveMajorityCharacterSites / RemoveGapSeqs /
// RemoveCharacterSeqs, docs/commands/clean.md), never from the code under test.
//
// A "unit" is what is kept or removed: a column for the Sites operations, a row
// for the Seqs operations. For one unit
//
//	excluded  = '-' when ignore-gaps, N/n (nucleotides) or X/x (proteins) when ignore-N
//	matching  = member of the character set (case folded when ignore-case), inverted when reverse
//	total     = number of non excluded characters
//	remove   <=> (cutoff > 0 and matching/total >= cutoff) or (cutoff == 0 and matching > 0)
//	cutoff outside [0,1] behaves as 0
//
// Lenient corners (either outcome accepted):
//
//	(i)  total == 0 (fraction 0/0);
//	(ii) an excluded character that is itself matching: the numerator may (reading 0) or may
//	     not (reading 1) count the excluded characters; ONE reading must explain a whole call;
//	(iii) a non dyadic cutoff with |matching - cutoff x total| <= 1e-14 x total (exact arithmetic): the
//	     implementation multiplies in float64, the rounding of that product decides.
package main

import (
	"math"
	"math/big"
)

type verdict int8

const (
	vKeep verdict = iota
	vRemove
	vEither
)

func (v verdict) String() string { return [...]string{"keep", "remove", "either"}[v] }

// cleanOpts describes one cleaning call.
type cleanOpts struct {
	Maj     bool    `json:"majority,omitempty"`
	Chars   string  `json:"chars,omitempty"`
	Cutoff  float64 `json:"cutoff"`
	Ends    bool    `json:"ends,omitempty"`
	IgnCase bool    `json:"ignore_case,omitempty"`
	IgnGaps bool    `json:"ignore_gaps,omitempty"`
	IgnNs   bool    `json:"ignore_n,omitempty"`
	Reverse bool    `json:"reverse,omitempty"`
}

func lower(b byte) byte {
	if 'A' <= b && b <= 'Z' {
		return b + 32
	}
	return b
}

func wildcard(aa bool) byte {
	if aa {
		return 'X'
	}
	return 'N'
}

func isExcluded(b byte, aa bool, o *cleanOpts) bool {
	if o.IgnGaps && b == '-' {
		return true
	}
	if o.IgnNs {
		w := wildcard(aa)
		if b == w || b == lower(w) {
			return true
		}
	}
	return false
}

func isMatch(b byte, o *cleanOpts) bool {
	in := false
	for i := 0; i < len(o.Chars); i++ {
		ch := o.Chars[i]
		if ch == b || (o.IgnCase && lower(ch) == lower(b)) {
			in = true
			break
		}
	}
	return in != o.Reverse
}

// ustat: counts of one unit.
type ustat struct {
	mAll int // matching characters, excluded ones included (reading 0)
	mIn  int // matching characters among the non excluded ones (reading 1)
	t    int // non excluded characters
	excl int // excluded characters
}

func (s ustat) m(reading int) int {
	if reading == 0 {
		return s.mAll
	}
	return s.mIn
}

func unitStat(u string, aa bool, o *cleanOpts) (s ustat) {
	if o.Maj {
		return majStat(u, aa, o)
	}
	for i := 0; i < len(u); i++ {
		b := u[i]
		ex := isExcluded(b, aa, o)
		ma := isMatch(b, o)
		if ex {
			s.excl++
		} else {
			s.t++
		}
		if ma {
			s.mAll++
			if !ex {
				s.mIn++
			}
		}
	}
	return
}

// majStat: matching = the most frequent non excluded character of the column (case folded).
func majStat(u string, aa bool, o *cleanOpts) (s ustat) {
	var cnt [256]int
	for i := 0; i < len(u); i++ {
		b := u[i]
		if isExcluded(b, aa, o) {
			s.excl++
			continue
		}
		s.t++
		f := lower(b)
		cnt[f]++
		if cnt[f] > s.mAll {
			s.mAll = cnt[f]
		}
	}
	s.mIn = s.mAll
	return
}

// isDyadic: cutoff = k/2^e with k < 2^20, so that cutoff*t is exact in float64 for t < 2^30.
func isDyadic(x float64) bool {
	if x == 0 {
		return true
	}
	fr, _ := math.Frexp(x)
	k := fr * (1 << 20)
	return k == math.Trunc(k)
}

func effCutoff(c float64) float64 {
	if c < 0 || c > 1 {
		return 0
	}
	return c
}

// decide applies the rule to (m, t). tie reports an exact tie m/t == cutoff (cutoff > 0).
func decide(m, t int, cutoff float64) (v verdict, tie bool) {
	cutoff = effCutoff(cutoff)
	if t == 0 {
		return vEither, false
	}
	if cutoff == 0 {
		if m > 0 {
			return vRemove, false
		}
		return vKeep, false
	}
	// exact: the float64 cutoff is a rational number
	rc := new(big.Rat).SetFloat64(cutoff)
	d := new(big.Rat).Sub(new(big.Rat).SetInt64(int64(m)), rc.Mul(rc, new(big.Rat).SetInt64(int64(t))))
	sign := d.Sign()
	zone := new(big.Rat).SetFloat64(1e-14 * float64(t))
	if d.Abs(d).Cmp(zone) > 0 || (isDyadic(cutoff) && t < 1<<30) {
		// outside the rounding zone of an implementation that multiplies in float64 (and inside it for dyadic
		// cutoffs, whose product is exact)
		if sign >= 0 {
			return vRemove, sign == 0
		}
		return vKeep, false
	}
	return vEither, false
}

// leadRun / trailRun: lengths of the runs of removed columns at both ends.
func leadRun(rm []bool) int {
	n := 0
	for n < len(rm) && rm[n] {
		n++
	}
	return n
}

func trailRun(rm []bool) int {
	n := 0
	for n < len(rm) && rm[len(rm)-1-n] {
		n++
	}
	return n
}

// explain tells whether the observed removal set is admitted by the verdicts.
// Returns -1 when it is, else an offending unit and the reason.
func explain(vs []verdict, rm []bool, ends bool) (int, string) {
	L := len(vs)
	if !ends {
		for j := 0; j < L; j++ {
			if vs[j] == vRemove && !rm[j] {
				return j, "meets the cutoff but was kept"
			}
			if vs[j] == vKeep && rm[j] {
				return j, "does not meet the cutoff but was removed"
			}
		}
		return -1, ""
	}
	p, s := leadRun(rm), trailRun(rm)
	if p == L {
		for j := 0; j < L; j++ {
			if vs[j] == vKeep {
				return j, "does not meet the cutoff but every column was removed (ends mode)"
			}
		}
		return -1, ""
	}
	for j := p; j < L-s; j++ {
		if rm[j] {
			return j, "is neither in the removed prefix nor in the removed suffix but was removed (ends mode)"
		}
	}
	for j := 0; j < p; j++ {
		if vs[j] == vKeep {
			return j, "is in the removed prefix but does not meet the cutoff (ends mode)"
		}
	}
	for j := L - s; j < L; j++ {
		if vs[j] == vKeep {
			return j, "is in the removed suffix but does not meet the cutoff (ends mode)"
		}
	}
	if vs[p] == vRemove {
		return p, "meets the cutoff and continues the removed prefix but was kept (ends mode: prefix not maximal)"
	}
	if vs[L-s-1] == vRemove {
		return L - s - 1, "meets the cutoff and continues the removed suffix but was kept (ends mode: suffix not maximal)"
	}
	return -1, ""
}

// columns transposes rows into column strings.
func columns(rows []string) []string {
	if len(rows) == 0 {
		return nil
	}
	L := len(rows[0])
	n := len(rows)
	buf := make([]byte, n*L)
	for i, r := range rows {
		for j := 0; j < L; j++ {
			buf[j*n+i] = r[j]
		}
	}
	cols := make([]string, L)
	all := string(buf)
	for j := 0; j < L; j++ {
		cols[j] = all[j*n : (j+1)*n]
	}
	return cols
}
