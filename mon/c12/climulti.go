// cli-multi sub-check: a phylip input holding several alignments must give, for each of them, exactly what the
// same command gives when that alignment is alone in its file: nothing (converted coordinates, counters, state)
// may be carried over from one alignment of the input to the next. A two-execution (metamorphic) check: no oracle
// besides the command itself.
package main

import (
	"bytes"
	"fmt"
	"os"
	"os/exec"
	"path/filepath"
	"strings"

	"verif/lib/gen"
	"verif/lib/mon"
)

func multiTemplates(ref string) [][]string {
	return [][]string{
		{"clean", "sites", "-c", "0.3", "-q"},
		{"clean", "sites", "--char", "MAJ", "-c", "0.6", "-q"},
		{"clean", "sites", "--ends", "-q"},
		{"clean", "seqs", "-c", "0.2", "-q"},
		{"clean", "sites", "--char", "N", "--ignore-gaps", "-c", "0.3", "-q"},
		{"clean", "sites", "--ignore-n", "-c", "0.5", "-q"},
		{"clean", "seqs", "--char", "N", "-c", "0.1", "-q"},
		{"clean", "sites", "--char", "AC", "--reverse", "-c", "0.9", "-q"},
	}
}

func runCliMulti(c *mon.Case) {
	if !cliSetup() {
		c.Failf("cli:build", "cannot build the goalign binary: %s", cliBuildErr)
		return
	}
	r := c.R
	dir, err := os.MkdirTemp(filepath.Dir(cliDir), "c12-multi-")
	if err != nil {
		c.Failf("cli:harness", "%v", err)
		return
	}
	defer os.RemoveAll(dir)
	n := r.Range(3, 6)
	k := r.Range(2, 4)
	names := make([]string, n)
	for i := range names {
		names[i] = fmt.Sprintf("s%d", i)
	}
	var files []string
	var all strings.Builder
	var shown [][]string
	for a := 0; a < k; a++ {
		L := r.Range(8, 24)
		base := r.Str(L, "ACGT")
		var sb strings.Builder
		fmt.Fprintf(&sb, "   %d   %d\n", n, L)
		rows := make([]string, n)
		for i := 0; i < n; i++ {
			b := []byte(base)
			for j := range b {
				if r.Chance(0.15) {
					b[j] = r.Pick("ACGT")
				}
				if r.Chance(0.2) { // gaps at different places in the different alignments (also in the reference row)
					b[j] = '-'
				}
				if r.Chance(0.05) {
					b[j] = 'N'
				}
			}
			if i == 0 && strings.Trim(string(b), "-") == "" {
				b[0] = 'A'
			}
			rows[i] = string(b)
			fmt.Fprintf(&sb, "%s  %s\n", names[i], rows[i])
		}
		shown = append(shown, rows)
		f := filepath.Join(dir, fmt.Sprintf("single%d.phy", a))
		os.WriteFile(f, []byte(sb.String()), 0644)
		files = append(files, f)
		all.WriteString(sb.String())
	}
	multi := filepath.Join(dir, "multi.phy")
	os.WriteFile(multi, []byte(all.String()), 0644)
	tpls := multiTemplates(names[0])
	tpl := tpls[c.Idx%len(tpls)]
	c.Input(map[string]interface{}{"command": strings.Join(tpl, " "), "alignments": shown})
	runOne := func(in string) (string, string, int) {
		cmd := exec.Command(cliBin, append(append([]string{}, tpl...), "-p", "-i", in)...)
		cmd.Dir = dir
		var so, se bytes.Buffer
		cmd.Stdout, cmd.Stderr = &so, &se
		exit := 0
		if e := cmd.Run(); e != nil {
			exit = 1
			if ee, ok := e.(*exec.ExitError); ok {
				exit = ee.ExitCode()
			}
		}
		return so.String(), se.String(), exit
	}
	var cat strings.Builder
	for _, f := range files {
		so, se, ex := runOne(f)
		if strings.Contains(se, "panic:") || strings.Contains(se, "goroutine ") {
			c.Failf("cli-multi:panic", "goalign %s -p -i %s crashed: %s", strings.Join(tpl, " "), filepath.Base(f), se)
			return
		}
		if ex != 0 {
			c.Count("cli-multi:single-alignment-refused")
			return // the command refuses one of the alignments on its own: nothing to compare
		}
		cat.WriteString(so)
	}
	so, se, ex := runOne(multi)
	if strings.Contains(se, "panic:") || strings.Contains(se, "goroutine ") {
		c.Failf("cli-multi:panic", "goalign %s -p -i multi.phy crashed: %s", strings.Join(tpl, " "), se)
		return
	}
	if ex != 0 || so != cat.String() {
		c.Failf("cli-multi:differs-from-one-alignment-at-a-time", "goalign %s -p on a file of %d alignments (exit %d) differs from the same command on each alignment alone:\n--- all at once\n%s\n--- one at a time\n%s\nstderr: %s", strings.Join(tpl, " "), k, ex, so, cat.String(), se)
		return
	}
	label := tpl[0]
	if len(tpl) > 1 {
		label += "-" + tpl[1]
	}
	c.Count("cli-multi:" + label)
	c.Count("cli-multi:ok")
	c.NonTrivial(strings.Join(tpl, " "), gen.Itoa(c.Idx))
}
