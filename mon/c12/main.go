// C12 monitor: every cleaning operation of goalign (RemoveGapSites, RemoveCharacterSites,
// RemoveMajorityCharacterSites, RemoveGapSeqs, RemoveCharacterSeqs and the `goalign clean`
// commands) against the reference rule of ref.go: bounded-exhaustive over all columns /
// rows of height 1..5 over a 6 symbol alphabet x all option sets x dyadic cutoffs, then
// random alignments with cutoffs placed exactly on a fraction of the alignment.
package main

import (
	"fmt"
	"math"
	"runtime"
	"runtime/debug"
	"strings"

	"github.com/evolbioinfo/goalign/align"

	"verif/lib/conc"
	"verif/lib/gen"
	"verif/lib/h"
	"verif/lib/mon"
)

func alphaOf(aa bool) int {
	if aa {
		return align.AMINOACIDS
	}
	return align.NUCLEOTIDS
}

func alphaName(aa bool) string {
	if aa {
		return "aa"
	}
	return "nt"
}

func seqsOf(rows gen.Rows) []string {
	s := make([]string, len(rows))
	for i, r := range rows {
		s[i] = r.Seq
	}
	return s
}

func mkRows(seqs []string) gen.Rows {
	rows := make(gen.Rows, len(seqs))
	for i, s := range seqs {
		rows[i] = gen.Seq{Name: "s" + gen.Itoa(i), Seq: s}
	}
	return rows
}

func optKey(o *cleanOpts) string {
	return fmt.Sprintf("%v|%q|%v|%v%v%v%v%v", o.Maj, o.Chars, o.Cutoff, o.Ends, o.IgnCase, o.IgnGaps, o.IgnNs, o.Reverse)
}

func b2(b bool) byte {
	if b {
		return '1'
	}
	return '0'
}

// combo names the option set of a call: e(nds) c(ase) g(aps) n r(everse).
func combo(o *cleanOpts) string {
	return string([]byte{b2(o.Ends), b2(o.IgnCase), b2(o.IgnGaps), b2(o.IgnNs), b2(o.Reverse)})
}

func cutoffClass(x float64) string {
	switch {
	case x < 0 || x > 1:
		return "outside"
	case x == 0:
		return "0"
	case x == 1:
		return "1"
	case isDyadic(x):
		return "dyadic"
	}
	return "decimal"
}

// callStats is what one checked call contributes to the coverage.
type callStats struct {
	ties, excl, either, removed, units int
	cornerII                           bool
}

func (s callStats) nonTrivial() bool { return s.ties > 0 || s.excl > 0 }

// verdictsOf computes the verdicts of all units under one reading.
func verdictsOf(units []string, aa bool, o *cleanOpts, reading int, st *callStats) []verdict {
	vs := make([]verdict, len(units))
	for j, u := range units {
		s := unitStat(u, aa, o)
		v, tie := decide(s.m(reading), s.t, o.Cutoff)
		vs[j] = v
		if st != nil {
			if tie {
				st.ties++
			}
			if s.excl > 0 {
				st.excl++
			}
			if v == vEither {
				st.either++
			}
			if s.mAll != s.mIn {
				st.cornerII = true
			}
		}
	}
	return vs
}

func describeUnit(u string, aa bool, o *cleanOpts) string {
	s := unitStat(u, aa, o)
	return fmt.Sprintf("%q matching=%d (among non excluded: %d) non-excluded=%d excluded=%d", u, s.mAll, s.mIn, s.t, s.excl)
}

func showInts(x []int) string {
	if len(x) > 40 {
		return fmt.Sprintf("%v…(%d)", x[:40], len(x))
	}
	return fmt.Sprint(x)
}

// checkSites checks one Sites call: before = rows given, after/length = rows and Length() observed.
func checkSites(c *mon.Case, op string, before gen.Rows, aa bool, o cleanOpts, first, last int, kept, rm []int, after gen.Rows, length int) (st callStats) {
	ctx := func() string {
		return fmt.Sprintf("\n%s alphabet=%s opts=%+v\nbefore=%s\nafter =%s\nfirst=%d last=%d kept=%s rm=%s Length()=%d", op, alphaName(aa), o, h.Show(before), h.Show(after), first, last, showInts(kept), showInts(rm), length)
	}
	n := len(before)
	L := 0
	if n > 0 {
		L = len(before[0].Seq)
	}
	st.units = L
	// 1. kept and removed indices partition 0..L-1, ascending
	mark := make([]int8, L)
	for pass, list := range [][]int{kept, rm} {
		prev := -1
		for _, k := range list {
			if k < 0 || k >= L {
				c.Failf(op+":index-out-of-range", "reported column %d of %d%s", k, L, ctx())
				return
			}
			if k <= prev {
				c.Failf(op+":indices-not-ascending", "column %d reported after %d%s", k, prev, ctx())
				return
			}
			prev = k
			mark[k] |= int8(1 << pass)
		}
	}
	rmSet := make([]bool, L)
	for j := 0; j < L; j++ {
		if mark[j] == 0 {
			c.Failf(op+":column-in-neither-list", "column %d is neither kept nor removed%s", j, ctx())
			return
		}
		if mark[j] == 3 {
			c.Failf(op+":column-in-both-lists", "column %d is both kept and removed%s", j, ctx())
			return
		}
		rmSet[j] = mark[j] == 2
	}
	st.removed = len(rm)
	// 2. result == selection of the kept columns, names and order intact
	if len(after) != n {
		c.Failf(op+":row-count-changed", "%d rows before, %d after%s", n, len(after), ctx())
		return
	}
	buf := make([]byte, len(kept))
	for i, r := range before {
		for x, k := range kept {
			buf[x] = r.Seq[k]
		}
		if after[i].Name != r.Name {
			c.Failf(op+":names-changed", "row %d is %q, was %q%s", i, after[i].Name, r.Name, ctx())
			return
		}
		if after[i].Seq != string(buf) {
			c.Failf(op+":result-not-selection-of-kept", "row %d is %q, the kept columns give %q%s", i, after[i].Seq, string(buf), ctx())
			return
		}
	}
	// 3. length
	if n > 0 && length != len(kept) {
		c.Failf(op+":length-not-updated", "Length()=%d with %d kept columns%s", length, len(kept), ctx())
		return
	}
	// 4. leading / trailing counts
	if lead := leadRun(rmSet); first != lead {
		c.Failf(op+":leading-count", "reported %d leading removed columns, the removed list starts with a run of %d%s", first, lead, ctx())
	}
	if trail := trailRun(rmSet); last != trail {
		c.Failf(op+":trailing-count", "reported %d trailing removed columns, the removed list ends with a run of %d%s", last, trail, ctx())
	}
	// 5. the rule
	cols := columns(seqsOf(before))
	vs := verdictsOf(cols, aa, &o, 0, &st)
	j, why := explain(vs, rmSet, o.Ends)
	if j >= 0 && st.cornerII {
		vs1 := verdictsOf(cols, aa, &o, 1, nil)
		if j1, _ := explain(vs1, rmSet, o.Ends); j1 < 0 {
			j = -1
		}
	}
	if j >= 0 {
		kind := "wrong-columns"
		if o.Ends {
			kind = "wrong-columns-ends"
		}
		c.Failf(op+":"+kind, "column %d %s: %s, rule says %s (cutoff %v)%s", j, why, describeUnit(cols[j], aa, &o), vs[j], effCutoff(o.Cutoff), ctx())
	}
	return
}

// checkSeqs checks one Seqs call.
func checkSeqs(c *mon.Case, op string, before gen.Rows, aa bool, o cleanOpts, nret int, after gen.Rows, length, nseq int) (st callStats) {
	ctx := func() string {
		return fmt.Sprintf("\n%s alphabet=%s opts=%+v\nbefore=%s\nafter =%s\nreturned=%d Length()=%d NbSequences()=%d", op, alphaName(aa), o, h.Show(before), h.Show(after), nret, length, nseq)
	}
	n := len(before)
	st.units = n
	rmSet := make([]bool, n)
	j := 0
	for i, r := range before {
		if j < len(after) && after[j] == r {
			j++
		} else {
			rmSet[i] = true
		}
	}
	if j != len(after) {
		c.Failf(op+":result-not-subsequence-of-rows", "row %d of the result (%q:%s) is not the next surviving row of the input (names, residues and order must be intact)%s", j, after[j].Name, after[j].Seq, ctx())
		return
	}
	st.removed = n - len(after)
	if nret != n-len(after) {
		c.Failf(op+":returned-count", "returned %d, %d rows disappeared%s", nret, n-len(after), ctx())
	}
	if nseq != len(after) {
		c.Failf(op+":nbsequences", "NbSequences()=%d, %d rows iterated%s", nseq, len(after), ctx())
	}
	if len(after) > 0 && length != len(before[0].Seq) {
		c.Failf(op+":length-changed", "Length()=%d, rows have %d residues%s", length, len(before[0].Seq), ctx())
	}
	units := seqsOf(before)
	vs := verdictsOf(units, aa, &o, 0, &st)
	k, why := explain(vs, rmSet, false)
	if k >= 0 && st.cornerII {
		vs1 := verdictsOf(units, aa, &o, 1, nil)
		if k1, _ := explain(vs1, rmSet, false); k1 < 0 {
			k = -1
		}
	}
	if k >= 0 {
		c.Failf(op+":wrong-rows", "row %d (%q) %s: %s, rule says %s (cutoff %v)%s", k, before[k].Name, why, describeUnit(units[k], aa, &o), vs[k], effCutoff(o.Cutoff), ctx())
	}
	return
}

func sitesOpName(o *cleanOpts, wrapper bool) string {
	switch {
	case o.Maj:
		return "RemoveMajorityCharacterSites"
	case wrapper:
		return "RemoveGapSites"
	}
	return "RemoveCharacterSites"
}

// structural checks of the container after an operation
func checkContainer(c *mon.Case, op string, a align.Alignment, aa bool, detail func() string) {
	if a.Alphabet() != alphaOf(aa) {
		c.Failf(op+":alphabet-changed", "Alphabet()=%d%s", a.Alphabet(), detail())
	}
	if msg := h.CheckRect(a); msg != "" {
		c.Failf(op+":invariants", "%s%s", msg, detail())
	}
}

// doSites builds the alignment, runs the operation and checks it. Returns the alignment for chaining.
func doSites(c *mon.Case, before gen.Rows, aa bool, o cleanOpts, wrapper bool) (align.Alignment, callStats) {
	a := h.MkAlign(before, alphaOf(aa))
	return a, doSitesOn(c, a, before, aa, o, wrapper)
}

func doSitesOn(c *mon.Case, a align.Alignment, before gen.Rows, aa bool, o cleanOpts, wrapper bool) callStats {
	op := sitesOpName(&o, wrapper)
	var first, last int
	var kept, rm []int
	switch {
	case o.Maj:
		first, last, kept, rm = a.RemoveMajorityCharacterSites(o.Cutoff, o.Ends, o.IgnGaps, o.IgnNs)
	case wrapper:
		first, last, kept, rm = a.RemoveGapSites(o.Cutoff, o.Ends)
	default:
		cs := []uint8(o.Chars)
		first, last, kept, rm = a.RemoveCharacterSites(cs, o.Cutoff, o.Ends, o.IgnCase, o.IgnGaps, o.IgnNs, o.Reverse)
		if string(cs) != o.Chars {
			// the caller's character set is an input: a second cleaning with the same slice must mean the same characters
			c.Failf(op+":character-set-modified", "the character set given to the call was %q, it is %q afterwards (opts=%+v)", o.Chars, cs, o)
		}
	}
	after := h.Snap(a)
	st := checkSites(c, op, before, aa, o, first, last, kept, rm, after, a.Length())
	if a.NbSequences() != len(before) {
		c.Failf(op+":nbsequences", "NbSequences()=%d, was %d; opts=%+v before=%s", a.NbSequences(), len(before), o, h.Show(before))
	}
	checkContainer(c, op, a, aa, func() string { return fmt.Sprintf(" opts=%+v before=%s", o, h.Show(before)) })
	countCall(c, op, aa, &o, st)
	return st
}

func doSeqs(c *mon.Case, before gen.Rows, aa bool, o cleanOpts, wrapper bool) (align.Alignment, callStats) {
	a := h.MkAlign(before, alphaOf(aa))
	return a, doSeqsOn(c, a, before, aa, o, wrapper)
}

func doSeqsOn(c *mon.Case, a align.Alignment, before gen.Rows, aa bool, o cleanOpts, wrapper bool) callStats {
	op := "RemoveCharacterSeqs"
	var nret int
	if wrapper {
		op = "RemoveGapSeqs"
		nret = a.RemoveGapSeqs(o.Cutoff, o.IgnNs)
	} else {
		nret = a.RemoveCharacterSeqs(o.Chars[0], o.Cutoff, o.IgnCase, o.IgnGaps, o.IgnNs)
	}
	after := h.Snap(a)
	st := checkSeqs(c, op, before, aa, o, nret, after, a.Length(), a.NbSequences())
	checkContainer(c, op, a, aa, func() string { return fmt.Sprintf(" opts=%+v before=%s", o, h.Show(before)) })
	countCall(c, op, aa, &o, st)
	return st
}

func countCall(c *mon.Case, op string, aa bool, o *cleanOpts, st callStats) {
	c.Count("op:" + op)
	c.Count("alphabet:" + alphaName(aa))
	c.Count("cutoff:" + cutoffClass(o.Cutoff))
	if !o.Maj && strings.HasSuffix(op, "CharacterSites") {
		c.Count("sites-combo:" + combo(o))
	}
	if op == "RemoveCharacterSeqs" {
		c.Count("seqs-combo:" + combo(o)[1:4])
	}
	if o.Maj {
		c.Count("maj-combo:" + string([]byte{b2(o.Ends), b2(o.IgnGaps), b2(o.IgnNs)}))
	}
	c.Add("units:checked", st.units)
	c.Add("units:removed", st.removed)
	c.Add("units:exact-tie-at-cutoff", st.ties)
	c.Add("units:with-excluded-characters", st.excl)
	c.Add("units:lenient-either", st.either)
	if st.cornerII {
		c.Count("calls:excluded-character-is-matching(lenient-ii)")
	}
	if st.removed == st.units && st.units > 0 {
		c.Count("calls:everything-removed")
	}
	if st.removed == 0 {
		c.Count("calls:nothing-removed")
	}
	if st.ties > 0 {
		c.Count("calls:with-exact-tie")
	}
}

// ---------------------------------------------------------------- exhaustive sub-checks

var exhSyms = map[bool]string{false: "AaC-Nn", true: "AaL-Xx"}
var exhCutoffs = []float64{0, 0.125, 0.25, 0.5, 0.75, 1, -1, 2}
var exhCharsets = map[bool][]string{
	false: {"-", "A", "a", "N", "n", "AC", "-N", "G", "a-", "Cn"},
	true:  {"-", "A", "a", "X", "x", "AL", "-X", "G", "a-", "Lx"},
}
var exhSeqChars = map[bool]string{false: "-AaNnCG", true: "-AaXxLG"}

// allWords returns all words of length hgt over syms, shuffled.
func allWords(r *gen.Rand, syms string, hgt int) []string {
	k := len(syms)
	total := 1
	for i := 0; i < hgt; i++ {
		total *= k
	}
	w := make([]string, total)
	b := make([]byte, hgt)
	for x := 0; x < total; x++ {
		y := x
		for i := 0; i < hgt; i++ {
			b[i] = syms[y%k]
			y /= k
		}
		w[x] = string(b)
	}
	p := r.Perm(total)
	out := make([]string, total)
	for i, j := range p {
		out[i] = w[j]
	}
	return out
}

// rowsFromColumns builds hgt rows from a list of columns.
func rowsFromColumns(cols []string, hgt int) gen.Rows {
	bs := make([][]byte, hgt)
	for i := range bs {
		bs[i] = make([]byte, len(cols))
	}
	for j, col := range cols {
		for i := 0; i < hgt; i++ {
			bs[i][j] = col[i]
		}
	}
	rows := make(gen.Rows, hgt)
	for i := range rows {
		rows[i] = gen.Seq{Name: "s" + gen.Itoa(i), Seq: string(bs[i])}
	}
	return rows
}

const (
	nExhSites   = 32 * 10 * 8 * 5 * 2 // option sets x character sets x cutoffs x heights x alphabets
	nExhMaj     = 8 * 8 * 5 * 2
	nExhSeqs    = 8 * 7 * 8 * 5 * 2
	nExhSitesH6 = 32 * 10 * 8 * 2
)

// runExhColumns drives a Sites operation over ALL columns of one height.
func runExhColumns(c *mon.Case, aa bool, hgt int, o cleanOpts) {
	cols := allWords(c.R, exhSyms[aa], hgt)
	var tot callStats
	run := func(chunk []string) {
		rows := rowsFromColumns(chunk, hgt)
		_, st := doSites(c, rows, aa, o, false)
		tot.ties += st.ties
		tot.excl += st.excl
		if !o.Maj && o.Chars == "-" && !o.IgnCase && !o.IgnGaps && !o.IgnNs && !o.Reverse {
			doSites(c, rows, aa, o, true)
		}
	}
	if !o.Ends {
		run(cols)
	} else {
		// ends mode: many short alignments so that prefixes, suffixes and interiors of every shape occur
		// (all columns for heights 1..4; for height 5 the first 1600 columns of the shuffled list, the
		// other ones in one long alignment: the per column decision of all of them is already enumerated
		// by the same option set without ends)
		short := len(cols)
		if short > 1600 {
			short = 1600
		}
		for i := 0; i < short; {
			k := c.R.Range(1, 7)
			if i+k > short {
				k = short - i
			}
			run(cols[i : i+k])
			i += k
		}
		if short < len(cols) {
			run(cols[short:])
		}
	}
	c.Add("exhaustive:columns-enumerated", len(cols))
	c.Count(fmt.Sprintf("exhaustive:height-%d", hgt))
	if tot.nonTrivial() {
		c.NonTrivial(alphaName(aa), gen.Itoa(hgt), optKey(&o))
	}
	c.Note("all %d columns of height %d over %q: %d exact ties at the cutoff, %d columns with excluded characters", len(cols), hgt, exhSyms[aa], tot.ties, tot.excl)
}

// runExhSitesH6: height 6 (46656 columns per alphabet), thorough tier only.
func runExhSitesH6(c *mon.Case) {
	x := c.Idx % nExhSitesH6
	bits := x % 32
	x /= 32
	cs := x % 10
	x /= 10
	cu := x % 8
	x /= 8
	aa := x%2 == 1
	o := cleanOpts{Chars: exhCharsets[aa][cs], Cutoff: exhCutoffs[cu], Ends: bits&1 != 0, IgnCase: bits&2 != 0, IgnGaps: bits&4 != 0, IgnNs: bits&8 != 0, Reverse: bits&16 != 0}
	c.Input(map[string]interface{}{"exhaustive": "all columns", "height": 6, "alphabet": alphaName(aa), "symbols": exhSyms[aa], "opts": o})
	runExhColumns(c, aa, 6, o)
}

func runExhSites(c *mon.Case) {
	x := c.Idx % nExhSites
	bits := x % 32
	x /= 32
	cs := x % 10
	x /= 10
	cu := x % 8
	x /= 8
	hgt := x%5 + 1
	x /= 5
	aa := x%2 == 1
	o := cleanOpts{Chars: exhCharsets[aa][cs], Cutoff: exhCutoffs[cu], Ends: bits&1 != 0, IgnCase: bits&2 != 0, IgnGaps: bits&4 != 0, IgnNs: bits&8 != 0, Reverse: bits&16 != 0}
	c.Input(map[string]interface{}{"exhaustive": "all columns", "height": hgt, "alphabet": alphaName(aa), "symbols": exhSyms[aa], "opts": o})
	runExhColumns(c, aa, hgt, o)
}

func runExhMaj(c *mon.Case) {
	x := c.Idx % nExhMaj
	bits := x % 8
	x /= 8
	cu := x % 8
	x /= 8
	hgt := x%5 + 1
	x /= 5
	aa := x%2 == 1
	o := cleanOpts{Maj: true, Cutoff: exhCutoffs[cu], Ends: bits&1 != 0, IgnGaps: bits&2 != 0, IgnNs: bits&4 != 0}
	c.Input(map[string]interface{}{"exhaustive": "all columns", "height": hgt, "alphabet": alphaName(aa), "symbols": exhSyms[aa], "opts": o})
	runExhColumns(c, aa, hgt, o)
}

func runExhSeqs(c *mon.Case) {
	x := c.Idx % nExhSeqs
	bits := x % 8
	x /= 8
	ch := x % 7
	x /= 7
	cu := x % 8
	x /= 8
	L := x%5 + 1
	x /= 5
	aa := x%2 == 1
	o := cleanOpts{Chars: exhSeqChars[aa][ch : ch+1], Cutoff: exhCutoffs[cu], IgnCase: bits&1 != 0, IgnGaps: bits&2 != 0, IgnNs: bits&4 != 0}
	c.Input(map[string]interface{}{"exhaustive": "all rows", "length": L, "alphabet": alphaName(aa), "symbols": exhSyms[aa], "opts": o})
	words := allWords(c.R, exhSyms[aa], L)
	// several alignments, so that "everything removed" and "nothing removed" also occur
	var tot callStats
	for i := 0; i < len(words); {
		k := c.R.PickInt([]int{1, 2, 3, 5, 17, 200, 8000})
		if i+k > len(words) {
			k = len(words) - i
		}
		rows := mkRows(words[i : i+k])
		_, st := doSeqs(c, rows, aa, o, false)
		tot.ties += st.ties
		tot.excl += st.excl
		if o.Chars == "-" && !o.IgnCase && !o.IgnGaps {
			doSeqs(c, rows, aa, o, true)
		}
		i += k
	}
	c.Add("exhaustive:rows-enumerated", len(words))
	c.Count(fmt.Sprintf("exhaustive:length-%d", L))
	if tot.nonTrivial() {
		c.NonTrivial(alphaName(aa), gen.Itoa(L), optKey(&o))
	}
	c.Note("all %d rows of length %d over %q: %d exact ties at the cutoff, %d rows with excluded characters", len(words), L, exhSyms[aa], tot.ties, tot.excl)
}

// ---------------------------------------------------------------- random sub-check

var ntMixes = []string{"ACGT-N", "Aa-Nn", "ACGTacgt-NnXx", "ACGTRYKMN-nx*?.", "A-", "N-n", "ACGT", "AC-"}
var aaMixes = []string{"ARNDL-X", "Aa-Xx", "ARNDCQEGHILKMFPSTWYVarndXx-Nn", "LX-x*?BZ", "A-", "X-x", "ARNDCQEGHILKMFPSTWYV", "AL-"}

var dyadicCutoffs = []float64{0, 0.125, 0.25, 0.375, 0.5, 0.625, 0.75, 0.875, 1, 0.0625, 0.5, 1, 0}
var outsideCutoffs = []float64{-1, 2, -0.5, 1.5, math.Nextafter(1, 2), -1e-9, 100}
var decimalCutoffs = []float64{0.3, 0.1, 0.6, 0.9, 1.0 / 3, 0.7, 0.05, 0.2, 0.8, 0.999, 0.45}

// genAlignment builds rows whose columns come in runs of similar density of a "target" character,
// so that ends mode meets qualifying prefixes / suffixes / interiors, and rows of differing density.
func genAlignment(r *gen.Rand, aa bool) (rows gen.Rows, mix string, target byte) {
	n := r.PickInt([]int{1, 2, 2, 3, 4, 4, 5, 6, 7, 8, 8, 10, 12})
	L := r.PickInt([]int{0, 1, 2, 3, 4, 5, 6, 8, 8, 10, 12, 16, 16, 24, 30, 45, 60})
	if aa {
		mix = aaMixes[r.Intn(len(aaMixes))]
	} else {
		mix = ntMixes[r.Intn(len(ntMixes))]
	}
	target = byte('-')
	switch r.Intn(4) {
	case 0:
		target = r.Pick(mix)
	case 1:
		target = wildcard(aa)
		if r.Bool() {
			target = lower(target)
		}
	}
	dens := []float64{0, 0, 0.125, 0.25, 0.5, 0.5, 0.75, 1, 1}
	colD := make([]float64, L)
	for j := 0; j < L; {
		d := r.PickF(dens)
		k := r.Range(1, 4)
		for ; k > 0 && j < L; k-- {
			colD[j] = d
			j++
		}
	}
	rowD := make([]float64, n)
	for i := range rowD {
		rowD[i] = r.PickF([]float64{0, 0, 0, 0.25, 0.5, 1})
	}
	bs := make([][]byte, n)
	second := r.Pick(mix) // a second frequent symbol (excluded characters, majority ties)
	if r.Bool() {
		second = wildcard(aa)
	}
	for i := range bs {
		bs[i] = make([]byte, L)
		for j := 0; j < L; j++ {
			switch {
			case r.Chance(colD[j]) || r.Chance(rowD[i]):
				bs[i][j] = target
			case r.Chance(0.25):
				bs[i][j] = second
			default:
				bs[i][j] = r.Pick(mix)
			}
		}
	}
	// exact fractions k/n column-wise: overwrite some columns with exactly k targets
	for j := 0; j < L; j++ {
		if r.Chance(0.3) {
			k := r.Intn(n + 1)
			p := r.Perm(n)
			for x, i := range p {
				if x < k {
					bs[i][j] = target
				} else if bs[i][j] == target {
					bs[i][j] = r.Pick(mix)
				}
			}
		}
	}
	names := gen.UniqueNames(r, n, true)
	rows = make(gen.Rows, n)
	for i := range rows {
		rows[i] = gen.Seq{Name: names[i], Seq: string(bs[i])}
	}
	return
}

func genChars(r *gen.Rand, mix string, target byte, aa bool) string {
	switch r.Intn(8) {
	case 0, 1, 2:
		return string(target)
	case 3:
		return "-"
	case 4: // several characters
		k := r.Range(2, 4)
		b := []byte{target}
		for len(b) < k {
			b = append(b, r.Pick(mix))
		}
		return string(b)
	case 5: // other case of the target
		if lower(target) != target {
			return string(lower(target))
		}
		return strings.ToUpper(string(target))
	case 6:
		return string([]byte{r.Pick(mix), r.Pick(mix + "Gg")})
	}
	return string(r.Pick(mix))
}

// genCutoff draws a cutoff; with `units` it often lands exactly on the fraction of one unit.
func genCutoff(r *gen.Rand, units []string, aa bool, o *cleanOpts) float64 {
	switch x := r.Intn(10); {
	case x < 4 && len(units) > 0:
		for try := 0; try < 4; try++ {
			s := unitStat(units[r.Intn(len(units))], aa, o)
			m := s.m(r.Intn(2))
			if s.t > 0 && m > 0 && m <= s.t {
				f := float64(m) / float64(s.t)
				if isDyadic(f) {
					switch r.Intn(8) {
					case 0: // glued to the tie from above / below: the unit is just under / over the cutoff
						if f < 1 {
							return math.Nextafter(f, 2)
						}
					case 1:
						return math.Nextafter(f, -1)
					case 2:
						if f+1e-10 <= 1 {
							return f + 1e-10
						}
					case 3:
						return f - 1e-10
					}
					return f
				}
			}
		}
		if r.Chance(0.1) {
			return r.PickF([]float64{1e-12, 1e-300, math.SmallestNonzeroFloat64}) // positive: a unit without matching character stays
		}
		return r.PickF(dyadicCutoffs)
	case x < 7:
		return r.PickF(dyadicCutoffs)
	case x < 8:
		return r.PickF(outsideCutoffs)
	}
	return r.PickF(decimalCutoffs)
}

func runRand(c *mon.Case) {
	r := c.R
	aa := r.Bool()
	rows, mix, target := genAlignment(r, aa)
	seqs := seqsOf(rows)
	cols := columns(seqs)
	type rec struct {
		Op   string    `json:"op"`
		Opts cleanOpts `json:"opts"`
	}
	var ops []rec
	nt := false
	key := rows.Key()
	note := func(op string, o cleanOpts, st callStats) {
		ops = append(ops, rec{op, o})
		if st.nonTrivial() {
			nt = true
			key += "|" + op + optKey(&o)
		}
	}

	// a. RemoveCharacterSites, all 2^5 option sets reachable
	o := cleanOpts{Chars: genChars(r, mix, target, aa), Ends: r.Bool(), IgnCase: r.Bool(), IgnGaps: r.Bool(), IgnNs: r.Bool(), Reverse: r.Chance(0.3)}
	o.Cutoff = genCutoff(r, cols, aa, &o)
	a, st := doSites(c, rows, aa, o, false)
	note("RemoveCharacterSites", o, st)
	if o.Ends {
		countEnds(c, cols, aa, &o)
	}

	// chain: a second cleaning on the result of the first (stale length / row state would show here)
	if mid := h.Snap(a); len(mid) > 0 && r.Chance(0.5) {
		switch r.Intn(3) {
		case 0:
			o2 := cleanOpts{Chars: genChars(r, mix, target, aa), Ends: r.Bool(), IgnCase: r.Bool(), IgnGaps: r.Bool(), IgnNs: r.Bool(), Reverse: r.Chance(0.3)}
			o2.Cutoff = genCutoff(r, columns(seqsOf(mid)), aa, &o2)
			st = doSitesOn(c, a, mid, aa, o2, false)
			note("chained:RemoveCharacterSites", o2, st)
		case 1:
			o2 := cleanOpts{Maj: true, Ends: r.Bool(), IgnGaps: r.Bool(), IgnNs: r.Bool()}
			o2.Cutoff = genCutoff(r, columns(seqsOf(mid)), aa, &o2)
			st = doSitesOn(c, a, mid, aa, o2, false)
			note("chained:RemoveMajorityCharacterSites", o2, st)
		default:
			o2 := cleanOpts{Chars: string(genChars(r, mix, target, aa)[0]), IgnCase: r.Bool(), IgnGaps: r.Bool(), IgnNs: r.Bool()}
			o2.Cutoff = genCutoff(r, seqsOf(mid), aa, &o2)
			st = doSeqsOn(c, a, mid, aa, o2, false)
			note("chained:RemoveCharacterSeqs", o2, st)
			// and sites again on what is left (an emptied alignment is skipped: see the witness sub-check)
			if mid2 := h.Snap(a); len(mid2) > 0 {
				o3 := cleanOpts{Chars: "-", Ends: r.Bool()}
				o3.Cutoff = genCutoff(r, columns(seqsOf(mid2)), aa, &o3)
				st = doSitesOn(c, a, mid2, aa, o3, true)
				note("chained:RemoveGapSites", o3, st)
			}
		}
		c.Count("chained-calls")
	}

	// b. RemoveGapSites
	o = cleanOpts{Chars: "-", Ends: r.Bool()}
	o.Cutoff = genCutoff(r, cols, aa, &o)
	_, st = doSites(c, rows, aa, o, true)
	note("RemoveGapSites", o, st)

	// c. RemoveMajorityCharacterSites
	o = cleanOpts{Maj: true, Ends: r.Bool(), IgnGaps: r.Bool(), IgnNs: r.Bool()}
	o.Cutoff = genCutoff(r, cols, aa, &o)
	_, st = doSites(c, rows, aa, o, false)
	note("RemoveMajorityCharacterSites", o, st)
	if o.Ends {
		countEnds(c, cols, aa, &o)
	}

	// d. RemoveCharacterSeqs
	o = cleanOpts{Chars: string(genChars(r, mix, target, aa)[0]), IgnCase: r.Bool(), IgnGaps: r.Bool(), IgnNs: r.Bool()}
	o.Cutoff = genCutoff(r, seqs, aa, &o)
	_, st = doSeqs(c, rows, aa, o, false)
	note("RemoveCharacterSeqs", o, st)

	// e. RemoveGapSeqs
	o = cleanOpts{Chars: "-", IgnNs: r.Bool()}
	o.Cutoff = genCutoff(r, seqs, aa, &o)
	_, st = doSeqs(c, rows, aa, o, true)
	note("RemoveGapSeqs", o, st)

	// f. the same object queried, edited in place at constant length, then cleaned: the decision is taken on the
	// content at the time of the call (statistics remembered from an earlier call would be stale)
	if len(rows) >= 2 && len(cols) >= 1 && r.Chance(0.5) {
		o = cleanOpts{Maj: true, Ends: r.Bool(), IgnGaps: r.Bool(), IgnNs: r.Bool()}
		a := h.MkAlign(rows, alphaOf(aa))
		switch r.Intn(3) {
		case 0:
			a.MaxCharStats(o.IgnGaps, o.IgnNs)
		case 1:
			a.RemoveMajorityCharacterSites(2, o.Ends, o.IgnGaps, o.IgnNs) // cutoff outside [0,1] counts as 0 ...
			a = h.MkAlign(rows, alphaOf(aa))                              // ... which may remove columns: start again
			a.MaxCharStats(o.IgnGaps, o.IgnNs)
			a.Consensus(o.IgnGaps, o.IgnNs)
		default:
			a.Consensus(o.IgnGaps, o.IgnNs)
		}
		pool := "ACGT-N"
		if aa {
			pool = "ARND-X"
		}
		how := "edited cells"
		if r.Bool() {
			// a few columns made (nearly) constant, others scrambled
			for k := r.Range(1, 4); k > 0; k-- {
				j := r.Intn(len(cols))
				ch := pool[r.Intn(len(pool))]
				for i := range rows {
					if r.Chance(0.85) {
						a.SetSequenceChar(i, j, ch)
					}
				}
			}
		} else {
			how = "rows removed"
			a.RemoveGapSeqs(r.PickF([]float64{0.25, 0.5, 0.125}), false)
		}
		if mid := h.Snap(a); len(mid) > 0 {
			o.Cutoff = genCutoff(r, columns(seqsOf(mid)), aa, &o)
			st = doSitesOn(c, a, mid, aa, o, false)
			note("after-query-and-edit("+how+"):RemoveMajorityCharacterSites", o, st)
			c.Count("query-edit-clean:" + how)
		}
	}

	c.Input(map[string]interface{}{"alphabet": alphaName(aa), "rows": rows, "calls": ops})
	if len(rows) > 0 && len(rows[0].Seq) == 0 {
		c.Count("shape:zero-length-rows")
	}
	if len(rows) == 1 {
		c.Count("shape:single-row")
	}
	if nt {
		c.NonTrivial(key)
	}
	c.Note("%d rows x %d columns, %d calls checked", len(rows), len(cols), len(ops))
}

// countEnds records which shapes ends mode met (by the rule, reading 0).
// runShared: alignments whose rows share storage. Public operations create them: Sample / Append hand row buffers
// on without copying (two rows of one alignment then are the same bytes), AddSequenceChar stores the caller's
// slice (rows may be overlapping windows of one buffer). Cleaning must still be the selection of the kept columns.
func runShared(c *mon.Case) {
	r := c.R
	aa := r.Bool()
	rows, mix, target := genAlignment(r, aa)
	if len(rows) < 2 || len(rows[0].Seq) < 2 {
		rows = mkRows([]string{"AC-GT-A", "A--GTCA", "TC-GNCA"})
		aa = false
	}
	var a align.Alignment
	kind := r.Intn(2)
	if kind == 0 {
		// the alignment plus a sample of its own rows appended to it (renamed, same buffers)
		a = h.MkAlign(rows, alphaOf(aa))
		smp, err := a.Sample(r.Range(1, len(rows)))
		if err != nil {
			return
		}
		if err = a.Append(smp); err != nil {
			return
		}
	} else {
		// rows are overlapping windows of one buffer
		L := len(rows[0].Seq)
		step := r.Range(1, L)
		buf := make([]byte, step*(len(rows)-1)+L)
		for i := range buf {
			buf[i] = rows[i%len(rows)].Seq[(i/len(rows))%L]
		}
		a = align.NewAlign(alphaOf(aa))
		for i := range rows {
			if err := a.AddSequenceChar(rows[i].Name, buf[i*step:i*step+L], ""); err != nil {
				return
			}
		}
	}
	before := h.Snap(a)
	seqs := seqsOf(before)
	var o cleanOpts
	switch r.Intn(3) {
	case 0:
		o = cleanOpts{Chars: genChars(r, mix, target, aa), Ends: r.Bool(), IgnCase: r.Bool(), IgnGaps: r.Bool(), IgnNs: r.Bool(), Reverse: r.Chance(0.3)}
	case 1:
		o = cleanOpts{Maj: true, Ends: r.Bool(), IgnGaps: r.Bool(), IgnNs: r.Bool()}
	default:
		o = cleanOpts{Chars: "-", Ends: r.Bool()}
	}
	o.Cutoff = genCutoff(r, columns(seqs), aa, &o)
	c.Input(map[string]interface{}{"rows": before, "aa": aa, "opts": o, "storage": []string{"sample-appended", "overlapping-windows"}[kind]})
	st := doSitesOn(c, a, before, aa, o, false)
	c.Count(fmt.Sprintf("shared-storage:kind:%d", kind))
	if st.nonTrivial() {
		c.NonTrivial("shared", before.Key(), optKey(&o))
	}
}

// runDeep: alignments with more than 65536 sequences (counters narrower than int would wrap).
func runDeep(c *mon.Case) {
	r := c.R
	aa := r.Bool()
	n := 65536 + r.Range(1, 3000)
	major, minor := byte('A'), byte('C')
	if aa {
		major, minor = 'L', 'K'
	}
	// column 0: a few minority residues only; column 1: exactly one half / one half; column 2: gaps for more than 65536 rows; column 3: all the same
	k0 := r.Range(1, 600)
	ngap := 65536 + r.Range(0, n-65536-1)
	rows := make(gen.Rows, n)
	for i := range rows {
		b := []byte{major, major, major, major}
		if i < k0 {
			b[0] = minor
		}
		if i%2 == 1 {
			b[1] = minor
		}
		if i < ngap {
			b[2] = '-'
		}
		rows[i] = gen.Seq{Name: "r" + gen.Itoa(i), Seq: string(b)}
	}
	var o cleanOpts
	switch c.Idx % 4 {
	case 0:
		o = cleanOpts{Maj: true, Cutoff: r.PickF([]float64{0.5, 0.75, 0.9})}
	case 1:
		o = cleanOpts{Chars: "-", Cutoff: r.PickF([]float64{0.5, 0.9, 0.25})}
	case 2:
		o = cleanOpts{Chars: string(minor), Cutoff: 0.5, IgnGaps: true}
	default:
		o = cleanOpts{Maj: true, Cutoff: 0.99, IgnGaps: true}
	}
	c.Input(map[string]interface{}{"rows": n, "columns": fmt.Sprintf("col0: %d x %c, rest %c; col1: alternating; col2: %d gaps; col3: all %c", k0, minor, major, ngap, major), "aa": aa, "opts": o})
	a := h.MkAlign(rows, alphaOf(aa))
	st := doSitesOn(c, a, rows, aa, o, false)
	_ = st
	c.Count("deep-alignments")
	c.NonTrivial("deep", fmt.Sprint(n, k0, ngap, aa), optKey(&o))
}

func countEnds(c *mon.Case, cols []string, aa bool, o *cleanOpts) {
	vs := verdictsOf(cols, aa, o, 0, nil)
	q := make([]bool, len(vs))
	for j, v := range vs {
		q[j] = v == vRemove
	}
	p, s := leadRun(q), trailRun(q)
	if p == len(q) {
		c.Count("ends:every-column-qualifies")
		return
	}
	if p > 0 {
		c.Count("ends:qualifying-prefix")
	}
	if s > 0 {
		c.Count("ends:qualifying-suffix")
	}
	for j := p; j < len(q)-s; j++ {
		if q[j] {
			c.Count("ends:qualifying-interior-column-kept")
			break
		}
	}
}

// ---------------------------------------------------------------- witnesses

type witness struct {
	what   string
	aa     bool
	seqs   []string // rows
	kind   string   // sites | gapsites | seqs | gapseqs
	o      cleanOpts
	wantRm []int // hand computed removed columns / rows
	first  int   // hand computed leading / trailing counts (sites)
	last   int
}

// transposed: write an alignment column by column.
func fromCols(cols ...string) []string {
	return seqsOf(rowsFromColumns(cols, len(cols[0])))
}

// gapColumn: a column of n rows with k gaps.
func gapColumn(n, k int) string {
	return strings.Repeat("-", k) + strings.Repeat("A", n-k)
}

var witnesses = []witness{
	// defect #7 (repaired by 63c1e2b): ignore-N must use the wildcard of the alignment's own alphabet
	{"nt: N rows excluded, 1 gap of 2 => removed at 1/2", false, fromCols("ANN-"), "sites", cleanOpts{Chars: "-", Cutoff: 0.5, IgnNs: true}, []int{0}, 1, 1},
	{"aa: X rows excluded, 1 gap of 2 => removed at 1/2", true, fromCols("AXX-"), "sites", cleanOpts{Chars: "-", Cutoff: 0.5, IgnNs: true}, []int{0}, 1, 1},
	{"nt: X is not the nucleotide wildcard: 1 gap of 4 => kept at 1/2", false, fromCols("AXX-", "Ann-"), "sites", cleanOpts{Chars: "-", Cutoff: 0.5, IgnNs: true}, []int{1}, 0, 1},
	{"aa: N is asparagine, not the wildcard: 1 gap of 4 => kept at 1/2", true, fromCols("ANN-", "Axx-"), "sites", cleanOpts{Chars: "-", Cutoff: 0.5, IgnNs: true}, []int{1}, 0, 1},
	{"nt rows: N/n excluded, X not", false, []string{"ANN-", "AXX-", "Ann-", "AC--"}, "seqs", cleanOpts{Chars: "-", Cutoff: 0.5, IgnNs: true}, []int{0, 2, 3}, 0, 0},
	{"aa rows: X/x excluded, N not", true, []string{"ANN-", "AXX-", "Axx-", "AC--"}, "gapseqs", cleanOpts{Chars: "-", Cutoff: 0.5, IgnNs: true}, []int{1, 2, 3}, 0, 0},
	{"nt majority: N excluded, A is 2 of 3", false, fromCols("AANNNC", "AANNCC"), "sites", cleanOpts{Maj: true, Cutoff: 0.625, IgnNs: true}, []int{0}, 1, 0},
	{"aa majority: X excluded, N counted", true, fromCols("AAXXXC", "AANNNC"), "sites", cleanOpts{Maj: true, Cutoff: 0.625, IgnNs: true}, []int{0}, 1, 0},
	// documentation examples
	{"doc: proportions .4 .5 .1 .5 .6 .1 .8, cutoff .3, ends => 0,1,6", false, fromCols(gapColumn(10, 4), gapColumn(10, 5), gapColumn(10, 1), gapColumn(10, 5), gapColumn(10, 6), gapColumn(10, 1), gapColumn(10, 8)), "gapsites", cleanOpts{Chars: "-", Cutoff: 0.3, Ends: true}, []int{0, 1, 6}, 2, 1},
	{"doc: same without ends => 0,1,3,4,6", false, fromCols(gapColumn(10, 4), gapColumn(10, 5), gapColumn(10, 1), gapColumn(10, 5), gapColumn(10, 6), gapColumn(10, 1), gapColumn(10, 8)), "gapsites", cleanOpts{Chars: "-", Cutoff: 0.3}, []int{0, 1, 3, 4, 6}, 2, 1},
	{"doc: cutoff .5: 5 of 10 removed, 4 of 10 kept", false, fromCols(gapColumn(10, 5), gapColumn(10, 4)), "gapsites", cleanOpts{Chars: "-", Cutoff: 0.5}, []int{0}, 1, 0},
	{"doc: cutoff 0: 1 of 10 removed, 0 of 10 kept", false, fromCols(gapColumn(10, 0), gapColumn(10, 1)), "gapsites", cleanOpts{Chars: "-", Cutoff: 0}, []int{1}, 0, 1},
	{"doc: cutoff outside [0,1] is 0", false, fromCols(gapColumn(10, 0), gapColumn(10, 1), gapColumn(10, 10)), "gapsites", cleanOpts{Chars: "-", Cutoff: 1.5}, []int{1, 2}, 0, 2},
	{"doc: cutoff 1 removes only full columns", false, fromCols(gapColumn(8, 7), gapColumn(8, 8), gapColumn(8, 0)), "gapsites", cleanOpts{Chars: "-", Cutoff: 1}, []int{1}, 0, 0},
	{"doc: majority with cutoff 0 removes all columns", false, fromCols("ACGT", "AAAA", "--AC"), "sites", cleanOpts{Maj: true, Cutoff: 0}, []int{0, 1, 2}, 3, 3},
	{"doc: majority, cutoff above 1 is 0 => all columns", false, fromCols("ACGT", "AAAA", "--AC"), "sites", cleanOpts{Maj: true, Cutoff: 1.5}, []int{0, 1, 2}, 3, 3},
	{"doc: majority, negative cutoff is 0 => all columns (ends)", true, fromCols("ALLX", "AAAA"), "sites", cleanOpts{Maj: true, Cutoff: -1, Ends: true, IgnNs: true}, []int{0, 1}, 2, 2},
	{"doc: seqs, cutoff outside [0,1] is 0", false, []string{"A-AA", "AAAA", "----"}, "seqs", cleanOpts{Chars: "-", Cutoff: 7}, []int{0, 2}, 0, 0},
	{"doc: seqs cutoff .5: 5 gaps of 10 removed, 4 kept; cutoff 0 in the next", false, []string{"-----AAAAA", "----AAAAAA", "AAAAAAAAAA"}, "gapseqs", cleanOpts{Chars: "-", Cutoff: 0.5}, []int{0}, 0, 0},
	{"doc: seqs cutoff 0: 1 gap of 10 removed", false, []string{"-AAAAAAAAA", "AAAAAAAAAA"}, "gapseqs", cleanOpts{Chars: "-", Cutoff: 0}, []int{0}, 0, 0},
	{"doc: --char ACG --reverse: anything but A,C,G", false, fromCols("ACGT", "ACGA", "TTTA", "NNN-"), "sites", cleanOpts{Chars: "ACG", Cutoff: 0.75, Reverse: true}, []int{2, 3}, 0, 2},
	// option interplay
	{"ignore-case, several characters", false, fromCols("aAcC", "aAGG", "GGGG"), "sites", cleanOpts{Chars: "aC", Cutoff: 0.75, IgnCase: true}, []int{0}, 1, 0},
	{"case sensitive by default", false, fromCols("aAcC", "aaGG"), "sites", cleanOpts{Chars: "a", Cutoff: 0.5}, []int{1}, 0, 1},
	{"ignore-gaps: 1 N of 2 non gap rows", false, fromCols("N-A-", "A---", "NAAA"), "sites", cleanOpts{Chars: "N", Cutoff: 0.5, IgnGaps: true}, []int{0}, 1, 0},
	{"ends: every column qualifies", false, fromCols("--", "--", "--"), "gapsites", cleanOpts{Chars: "-", Cutoff: 0.5, Ends: true}, []int{0, 1, 2}, 3, 3},
	{"ends: interior qualifying column stays, prefix and suffix go", false, fromCols("--", "AA", "--", "AA", "--", "--"), "gapsites", cleanOpts{Chars: "-", Cutoff: 1, Ends: true}, []int{0, 4, 5}, 1, 2},
	{"ends: nothing at the ends", false, fromCols("AA", "--", "AA"), "gapsites", cleanOpts{Chars: "-", Cutoff: 1, Ends: true}, []int{}, 0, 0},
	{"seqs ignore-case and ignore-gaps", false, []string{"a-A-C", "aAAA-", "CCCCa"}, "seqs", cleanOpts{Chars: "A", Cutoff: 0.75, IgnCase: true, IgnGaps: true}, []int{1}, 0, 0},
	{"tie exactly at 3/8", false, fromCols("---AAAAA", "--AAAAAA"), "gapsites", cleanOpts{Chars: "-", Cutoff: 0.375}, []int{0}, 1, 0},
}

const nEmptyWitness = 6

func runWitness(c *mon.Case) {
	if c.Idx >= len(witnesses) {
		runEmptyWitness(c, c.Idx-len(witnesses))
		return
	}
	w := witnesses[c.Idx]
	rows := mkRows(w.seqs)
	c.Input(map[string]interface{}{"what": w.what, "alphabet": alphaName(w.aa), "rows": rows, "kind": w.kind, "opts": w.o, "expected_removed": w.wantRm})
	c.NonTrivial("witness", gen.Itoa(c.Idx))
	a := h.MkAlign(rows, alphaOf(w.aa))
	switch w.kind {
	case "sites", "gapsites":
		wrapper := w.kind == "gapsites"
		op := sitesOpName(&w.o, wrapper)
		var first, last int
		var kept, rm []int
		switch {
		case w.o.Maj:
			first, last, kept, rm = a.RemoveMajorityCharacterSites(w.o.Cutoff, w.o.Ends, w.o.IgnGaps, w.o.IgnNs)
		case wrapper:
			first, last, kept, rm = a.RemoveGapSites(w.o.Cutoff, w.o.Ends)
		default:
			first, last, kept, rm = a.RemoveCharacterSites([]uint8(w.o.Chars), w.o.Cutoff, w.o.Ends, w.o.IgnCase, w.o.IgnGaps, w.o.IgnNs, w.o.Reverse)
		}
		st := checkSites(c, op, rows, w.aa, w.o, first, last, kept, rm, h.Snap(a), a.Length())
		countCall(c, op, w.aa, &w.o, st)
		if fmt.Sprint(rm) != fmt.Sprint(w.wantRm) || first != w.first || last != w.last {
			c.Failf(op+":witness", "%s: expected removed columns %v (leading %d, trailing %d), observed %v (leading %d, trailing %d); opts=%+v rows=%s", w.what, w.wantRm, w.first, w.last, rm, first, last, w.o, h.Show(rows))
		}
		c.Note("%s: removed %v, leading %d, trailing %d", w.what, rm, first, last)
	default:
		wrapper := w.kind == "gapseqs"
		op := "RemoveCharacterSeqs"
		var nret int
		if wrapper {
			op = "RemoveGapSeqs"
			nret = a.RemoveGapSeqs(w.o.Cutoff, w.o.IgnNs)
		} else {
			nret = a.RemoveCharacterSeqs(w.o.Chars[0], w.o.Cutoff, w.o.IgnCase, w.o.IgnGaps, w.o.IgnNs)
		}
		after := h.Snap(a)
		st := checkSeqs(c, op, rows, w.aa, w.o, nret, after, a.Length(), a.NbSequences())
		countCall(c, op, w.aa, &w.o, st)
		gone := []int{}
		left := map[string]bool{}
		for _, r := range after {
			left[r.Name] = true
		}
		for i, r := range rows {
			if !left[r.Name] {
				gone = append(gone, i)
			}
		}
		if fmt.Sprint(gone) != fmt.Sprint(w.wantRm) {
			c.Failf(op+":witness", "%s: expected removed rows %v, observed %v; opts=%+v rows=%s", w.what, w.wantRm, gone, w.o, h.Show(rows))
		}
		c.Note("%s: removed rows %v", w.what, gone)
	}
}

// runEmptyWitness: an alignment without any sequence (what `RemoveGapSeqs` leaves when every row goes)
// has no column and no row: cleaning it must remove nothing and report nothing.
func runEmptyWitness(c *mon.Case, k int) {
	aa := k%2 == 1
	a := h.MkAlign(gen.Rows{}, alphaOf(aa))
	viaSeqs := k >= 3
	if viaSeqs {
		// emptied by a cleaning call, the realistic way to get there
		a = h.MkAlign(mkRows([]string{"A-C", "--A"}), alphaOf(aa))
		if n := a.RemoveGapSeqs(0, false); n != 2 || a.NbSequences() != 0 {
			c.Failf("RemoveGapSeqs:witness", "cutoff 0 on rows A-C, --A removed %d rows, %d left", n, a.NbSequences())
			return
		}
	}
	what := []string{"RemoveGapSites", "RemoveMajorityCharacterSites", "RemoveCharacterSeqs"}[k%3]
	c.Input(map[string]interface{}{"what": "alignment without sequences", "alphabet": alphaName(aa), "emptied_by_RemoveGapSeqs": viaSeqs, "op": what})
	c.NonTrivial("empty", gen.Itoa(k))
	c.Count("op:" + what)
	c.Count("shape:no-sequence")
	switch k % 3 {
	case 0, 1:
		var first, last int
		var kept, rm []int
		if k%3 == 0 {
			first, last, kept, rm = a.RemoveGapSites(0.5, k >= 3)
		} else {
			first, last, kept, rm = a.RemoveMajorityCharacterSites(0.5, k >= 3, false, false)
		}
		if first != 0 || last != 0 || len(kept) != 0 || len(rm) != 0 || a.NbSequences() != 0 {
			c.Failf(what+":empty-alignment", "alignment without sequences: first=%d last=%d kept=%v rm=%v NbSequences=%d", first, last, kept, rm, a.NbSequences())
		}
	default:
		if n := a.RemoveCharacterSeqs('A', 0.5, false, false, false); n != 0 || a.NbSequences() != 0 {
			c.Failf(what+":empty-alignment", "alignment without sequences: returned %d, NbSequences=%d", n, a.NbSequences())
		}
	}
	c.Note("%s on an alignment without sequences: nothing removed", what)
}

func main() {
	// the workload is single threaded and allocation heavy (hundreds of thousands of tiny alignments):
	// 16 shards x 16 GC workers only fight each other
	runtime.GOMAXPROCS(2)
	debug.SetGCPercent(400)
	mon.SetNote("rule", "exh-sites / exh-maj: for each alphabet (nt symbols A a C - N n, aa symbols A a L - X x) and each height 1..5, ALL 6^h columns (shuffled; one alignment, or many alignments of 1..7 columns in ends mode) x all 2^5 option sets x 10 character sets x cutoffs {0,1/8,1/4,1/2,3/4,1,-1,2}; exh-seqs: ALL rows of length 1..5 likewise x 2^3 option sets x 7 characters; rand: random alignments (1..12 rows x 0..60 columns, 8 residue mixes per alphabet with both cases, IUPAC codes, * ? ., hostile names, runs of columns and rows of similar density of the target character, columns with exact k/n fractions) on which the five operations are called with random option sets and a cutoff that is dyadic, outside [0,1], decimal, or exactly the fraction of one column / row of that alignment, plus a second cleaning chained on the result; shared: alignments whose rows share storage (a sample of the rows appended to the alignment itself; rows given as overlapping windows of one buffer through AddSequenceChar); deep: alignments of 65537..68536 rows x 4 columns (a counter narrower than int would wrap); cli: the same through `goalign clean sites|seqs` (fasta in, fasta + --positions + --positions-rm + the counts on stderr out). Every call is checked against the reference rule of ref.go: kept/removed partition, result = selection of the kept columns (names, order), Length/NbSequences, leading/trailing counts, removal iff the cutoff is met, ends mode = maximal qualifying prefix and suffix. Non-trivial = at least one unit exactly at the cutoff or an active ignore option that excludes at least one character; distinct = (alignment, option sets) resp. (alphabet, height, option set) for the exhaustive cases.")
	mon.SetNote("assumptions", "lenient (i): a column / row whose non excluded total is 0 (0/0) may be kept or removed;; lenient (ii): when an excluded character is itself matching (e.g. --reverse with --ignore-gaps) the numerator may or may not count the excluded characters, but one of the two readings must explain the whole call;; the rule is evaluated exactly (rational arithmetic on the float64 cutoff); only when matching - cutoff x total is within 1e-14 x total of zero for a non dyadic cutoff may the unit go either way (rounding of the product in the implementation), exact ties are tested with dyadic cutoffs, near ties with cutoffs one ulp or 1e-10 off a dyadic fraction;; majority character = most frequent non excluded character with case folded (MaxCharStats documents upper-casing by example only; the design fixes this reading);; when every column qualifies in ends mode both the leading and the trailing count are the alignment length;; the alignment is NUCLEOTIDS or AMINOACIDS (the statement speaks of the alignment's own alphabet; BOTH/UNKNOWN are not driven);; Length() of an alignment emptied by a Seqs call is not checked (goalign reports -1 for empty);; cli: combinations the command refuses with an explicit error (--ignore-gaps with a set containing '-', --ignore-n with a set containing N/n) are accepted as refusals; --reverse / --ignore-case are not passed with GAP / MAJ (documented as not functional)")
	mon.SetNote("exhaustive_subspaces", "all columns of height 1..5 over 6 symbols (9330 per alphabet) x 32 option sets x 10 character sets x 8 cutoffs for RemoveCharacterSites; x 8 option sets x 8 cutoffs for RemoveMajorityCharacterSites; all rows of length 1..5 x 8 option sets x 7 characters x 8 cutoffs for RemoveCharacterSeqs; the wrappers RemoveGapSites / RemoveGapSeqs on the matching slices; enumerated completely at both tiers; thorough tier adds all 46656 columns of height 6 per alphabet for RemoveCharacterSites")
	for bits := 0; bits < 32; bits++ {
		o := cleanOpts{Ends: bits&1 != 0, IgnCase: bits&2 != 0, IgnGaps: bits&4 != 0, IgnNs: bits&8 != 0, Reverse: bits&16 != 0}
		mon.Floor("sites-combo:"+combo(&o), 500)
	}
	for _, op := range []string{"RemoveCharacterSites", "RemoveGapSites", "RemoveMajorityCharacterSites", "RemoveCharacterSeqs", "RemoveGapSeqs"} {
		mon.Floor("op:"+op, 2000)
	}
	for _, k := range []string{"0", "1", "dyadic", "outside", "decimal"} {
		mon.Floor("cutoff:"+k, 1000)
	}
	mon.Floor("alphabet:nt", 10000)
	mon.Floor("alphabet:aa", 10000)
	mon.Floor("units:exact-tie-at-cutoff", 10000)
	mon.Floor("units:with-excluded-characters", 10000)
	mon.Floor("calls:with-exact-tie", 2000)
	mon.Floor("calls:everything-removed", 200)
	mon.Floor("calls:nothing-removed", 200)
	mon.Floor("ends:qualifying-prefix", 200)
	mon.Floor("ends:qualifying-suffix", 200)
	mon.Floor("ends:qualifying-interior-column-kept", 200)
	mon.Floor("ends:every-column-qualifies", 50)
	mon.Floor("chained-calls", 500)
	mon.Floor("shape:no-sequence", 6)
	mon.Floor("exhaustive:columns-enumerated", 1000000)
	mon.Floor("t:exhaustive:height-6", nExhSitesH6)
	mon.Floor("exhaustive:rows-enumerated", 1000000)
	mon.Floor("deep-alignments", 16)
	mon.Floor("shared-storage:kind:0", 1000)
	mon.Floor("shared-storage:kind:1", 1000)
	mon.Floor("cli:sites", 100)
	mon.Floor("cli:seqs", 50)
	mon.Floor("cli-multi:ok", 40)
	mon.Floor("query-edit-clean:edited cells", 1000)
	mon.Floor("query-edit-clean:rows removed", 1000)
	mon.Floor("concurrent:calls", 500)
	mon.Main("C12", []mon.Sub{
		{Name: "witness", Quick: len(witnesses) + nEmptyWitness, Thorough: len(witnesses) + nEmptyWitness, Run: runWitness},
		{Name: "exh-sites", Quick: nExhSites, Thorough: nExhSites, Run: runExhSites},
		{Name: "exh-maj", Quick: nExhMaj, Thorough: nExhMaj, Run: runExhMaj},
		{Name: "exh-seqs", Quick: nExhSeqs, Thorough: nExhSeqs, Run: runExhSeqs},
		{Name: "exh-sites-h6", Quick: 0, Thorough: nExhSitesH6, Run: runExhSitesH6},
		{Name: "rand", Quick: 300000, Thorough: 8000000, Run: runRand},
		{Name: "shared", Quick: 20000, Thorough: 400000, Run: runShared},
		{Name: "deep", Quick: 16, Thorough: 160, Run: runDeep},
		{Name: "concurrent", Quick: 64, Thorough: 1200, Race: true, Run: func(c *mon.Case) { conc.Run(c, "clean") }},
		{Name: "cli", Quick: 320, Thorough: 3000, Serial: true, Run: runCli},
		{Name: "cli-multi", Quick: 90, Thorough: 900, Run: runCliMulti},
	})
}
