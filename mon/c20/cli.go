// cli sub-check of C20: the same invariants through `goalign build weightboot` (cmd/weightboot.go): the binary is
// built once per process from the tree under test (VERIF_REPO) into the scratch directory; every case owns a
// directory below it, writes an alignment (fasta / phylip incl. several alignments: documented "the first one
// only" / strict phylip / nexus / clustal / stockholm, optional --auto-detect), runs the command with -n / --nboot
// (or without: one replicate), --seed, -o / --output (or stdout) and checks every written weight vector: one
// weight per site of the (first) alignment, finite, not negative at the printed precision, sum = alignment
// length, not constant; replicates differ; the same seed writes the same text again, another seed / no seed
// another one; with 20000 replicates one coordinate follows the documented Dirichlet D(n;1,...,1) marginal.
// `goalign build tntweightboot` does not exist in the binary (cmd/tntweightboot.go carries `+build ignore`).
package main

import (
	"bytes"
	"fmt"
	"math"
	"os"
	"os/exec"
	"path/filepath"
	"strconv"
	"strings"

	"github.com/evolbioinfo/goalign/align"
	"github.com/evolbioinfo/goalign/io/clustal"
	"github.com/evolbioinfo/goalign/io/nexus"
	"github.com/evolbioinfo/goalign/io/stockholm"

	"verif/lib/gen"
	"verif/lib/h"
	"verif/lib/mon"
)

var cliBin, cliDir, cliBuildErr string

func cliSetup() bool {
	if cliBin != "" {
		return true
	}
	if cliBuildErr != "" {
		return false
	}
	repo := os.Getenv("VERIF_REPO")
	if repo == "" {
		repo = "/repo"
	}
	scratch := os.Getenv("VERIF_SCRATCH")
	if scratch == "" {
		scratch = os.TempDir()
	}
	dir, err := os.MkdirTemp(scratch, "c20-cli-")
	if err != nil {
		cliBuildErr = err.Error()
		fmt.Fprintln(os.Stderr, "c20 cli: "+cliBuildErr)
		return false
	}
	bin := filepath.Join(dir, "goalign")
	cmd := exec.Command("go", "build", "-o", bin, ".")
	cmd.Dir = repo
	env := []string{}
	for _, e := range os.Environ() {
		if !strings.HasPrefix(e, "GOFLAGS=") {
			env = append(env, e)
		}
	}
	cmd.Env = append(env, "GOFLAGS=-mod=readonly", "GOPROXY=off", "GOSUMDB=off", "GOTOOLCHAIN=local")
	if out, err := cmd.CombinedOutput(); err != nil {
		cliBuildErr = fmt.Sprintf("go build of %s failed: %v\n%s", repo, err, out)
		fmt.Fprintln(os.Stderr, "c20 cli: "+cliBuildErr)
		os.RemoveAll(dir)
		return false
	}
	cliBin, cliDir = bin, dir
	return true
}

type cliCase struct {
	Kind    string   `json:"kind"`
	Format  string   `json:"format"`
	Lengths []int    `json:"alignment_lengths"` // of the alignments of the file, in order
	Rows    int      `json:"rows"`
	N       int      `json:"replicates"` // -1: flag not given
	Seed    string   `json:"seed"`       // "": flag not given
	Args    []string `json:"args"`
	Input   string   `json:"input_head"`
}

type cliCtx struct {
	c    *mon.Case
	dir  string
	k    *cliCase
	runs int
}

func (x *cliCtx) run(args []string) (stdout, stderr string, exit int) {
	cmd := exec.Command(cliBin, args...)
	cmd.Dir = x.dir
	cmd.Stdin = strings.NewReader("")
	var so, se bytes.Buffer
	cmd.Stdout, cmd.Stderr = &so, &se
	if err := cmd.Run(); err != nil {
		exit = 1
		if ee, ok := err.(*exec.ExitError); ok {
			exit = ee.ExitCode()
		}
	}
	x.runs++
	return so.String(), se.String(), exit
}

func cliHead(s string, n int) string {
	if len(s) > n {
		return s[:n] + "…"
	}
	return s
}

func (x *cliCtx) fail(sig, stdout, stderr string, exit int, format string, a ...interface{}) {
	x.c.Failf("cli:"+sig, "goalign %s\n--- input (%s)\n%s\nexit %d stderr %q\noutput:\n%s\n%s", strings.Join(x.k.Args, " "), x.k.Format, x.k.Input, exit, cliHead(strings.TrimSpace(stderr), 300), cliHead(stdout, 1200), fmt.Sprintf(format, a...))
}

func crashed(stdout, stderr string, exit int) bool {
	return strings.Contains(stderr, "panic:") || strings.Contains(stderr, "goroutine ") || strings.Contains(stdout, "panic:") || exit == 2 || exit < 0
}

func cliRows(r *gen.Rand, n, L int, protein bool) gen.Rows {
	alpha := "ACGT-N"
	if protein {
		alpha = "ARNDCQEGHILKMFPSTWYV-X"
	}
	rows := make(gen.Rows, n)
	for i := range rows {
		rows[i] = gen.Seq{Name: "s" + gen.Itoa(i), Seq: r.Str(L, alpha)}
	}
	return rows
}

func cliLength(r *gen.Rand, idx int) int {
	switch idx % 6 {
	case 0:
		return 3
	case 1:
		return r.Range(4, 10)
	case 2, 3:
		return r.Range(11, 100)
	case 4:
		return r.Range(101, 600)
	}
	return r.PickInt([]int{3, 4, 60, 61, 100, 1500})
}

// writeInput writes the alignment file of the case; returns the input options.
func (x *cliCtx) writeInput(r *gen.Rand, L int, formatIdx int) []string {
	k := x.k
	n := r.Range(1, 4)
	protein := r.Chance(0.3)
	rows := cliRows(r, n, L, protein)
	k.Rows, k.Lengths = n, []int{L}
	alpha := align.NUCLEOTIDS
	if protein {
		alpha = align.AMINOACIDS
	}
	var content string
	var fl []string
	k.Format = []string{"fasta", "phylip", "fasta", "phylip-multi", "nexus", "fasta", "clustal", "phylip-strict", "stockholm", "phylip-multi"}[formatIdx%10]
	phy := func(rows gen.Rows, strict bool) string {
		var sb strings.Builder
		fmt.Fprintf(&sb, "   %d   %d\n", len(rows), len(rows[0].Seq))
		for _, s := range rows {
			if strict {
				fmt.Fprintf(&sb, "%-10s%s\n", s.Name, s.Seq)
			} else {
				fmt.Fprintf(&sb, "%s  %s\n", s.Name, s.Seq)
			}
		}
		return sb.String()
	}
	switch k.Format {
	case "fasta":
		var sb strings.Builder
		w := r.PickInt([]int{0, 0, 60})
		for _, s := range rows {
			sb.WriteString(">" + s.Name + "\n")
			if w == 0 {
				sb.WriteString(s.Seq + "\n")
				continue
			}
			for p := 0; p < len(s.Seq); p += w {
				e := p + w
				if e > len(s.Seq) {
					e = len(s.Seq)
				}
				sb.WriteString(s.Seq[p:e] + "\n")
			}
		}
		content = sb.String()
	case "phylip":
		content, fl = phy(rows, false), []string{"-p"}
	case "phylip-strict":
		content, fl = phy(rows, true), []string{"-p", "--input-strict"}
	case "phylip-multi": // documented: the first alignment only
		content, fl = phy(rows, false), []string{"-p"}
		for i, m := 0, r.Range(1, 2); i < m; i++ {
			L2 := L + r.PickInt([]int{-1, 1, 2, 7})
			if L2 < 3 {
				L2 = L + 3
			}
			content += phy(cliRows(r, r.Range(1, 3), L2, protein), false)
			k.Lengths = append(k.Lengths, L2)
		}
	case "nexus":
		content, fl = nexus.WriteAlignment(h.MkAlign(rows, alpha)), []string{"-x"}
	case "clustal":
		content, fl = clustal.WriteAlignment(h.MkAlign(rows, alpha)), []string{"-u"}
	case "stockholm":
		content, fl = stockholm.WriteAlignment(h.MkAlign(rows, alpha)), []string{"-k"}
	}
	if k.Format != "stockholm" && k.Format != "phylip-strict" && r.Chance(0.2) {
		fl = []string{"--auto-detect"}
		x.c.Count("cli:auto-detect")
	}
	x.c.Count("cli:format:" + k.Format)
	if err := os.WriteFile(filepath.Join(x.dir, "input.aln"), []byte(content), 0644); err != nil {
		panic("harness: " + err.Error())
	}
	k.Input = cliHead(content, 400)
	return append([]string{"-i", "input.aln"}, fl...)
}

// parseVectors reads "w\tw\t...\n" lines.
func parseVectors(text string) ([][]float64, [][]string, error) {
	text = strings.TrimSuffix(text, "\n")
	if text == "" {
		return nil, nil, nil
	}
	var vs [][]float64
	var raw [][]string
	for li, ln := range strings.Split(text, "\n") {
		f := strings.Split(ln, "\t")
		v := make([]float64, len(f))
		for i, s := range f {
			var err error
			if v[i], err = strconv.ParseFloat(s, 64); err != nil {
				return nil, nil, fmt.Errorf("line %d field %d: %q is not a number", li+1, i+1, s)
			}
		}
		vs = append(vs, v)
		raw = append(raw, f)
	}
	return vs, raw, nil
}

// checkVectors: the invariants of the statement on every written vector, at the printed precision (%f: 6 decimals).
func (x *cliCtx) checkVectors(text, stdout, stderr string, exit, n, L int) ([][]float64, bool) {
	vs, raw, err := parseVectors(text)
	if err != nil {
		x.fail("weightboot:output-format", text, stderr, exit, "%v", err)
		return nil, false
	}
	if len(vs) != n {
		x.fail("weightboot:number-of-vectors", text, stderr, exit, "%d weight vectors written, %d replicates asked", len(vs), n)
		return nil, false
	}
	for li, v := range vs {
		if len(v) != L {
			x.fail("weightboot:length", text, stderr, exit, "vector %d has %d weights, the (first) alignment has %d sites", li, len(v), L)
			return nil, false
		}
		sum := 0.0
		equal := true
		for i, w := range v {
			if math.IsNaN(w) || math.IsInf(w, 0) {
				x.fail("weightboot:not-finite", text, stderr, exit, "vector %d weight %d is %s", li, i, raw[li][i])
				return nil, false
			}
			if w < 0 || strings.HasPrefix(raw[li][i], "-") {
				x.fail("weightboot:not-positive", text, stderr, exit, "vector %d weight %d is %s", li, i, raw[li][i])
				return nil, false
			}
			if w == 0 {
				x.c.Count("cli:weights-printed-as-zero")
			}
			if w != v[0] {
				equal = false
			}
			sum += w
		}
		// every printed weight is within 0.5e-6 of the drawn one
		if tol := float64(L)*0.5e-6 + 1e-9*float64(L) + 1e-9; math.Abs(sum-float64(L)) > tol {
			x.fail("weightboot:sum", text, stderr, exit, "vector %d sums to %.9f, the alignment has %d sites (tolerance of the printed precision %.3g)", li, sum, L, tol)
			return nil, false
		}
		if equal {
			x.fail("weightboot:constant", text, stderr, exit, "vector %d: all %d weights are equal to %v, nothing was drawn", li, L, v[0])
			return nil, false
		}
		x.c.Count("cli:vectors-checked")
	}
	for i := 1; i < len(vs); i++ {
		if strings.Join(raw[i], "\t") == strings.Join(raw[i-1], "\t") {
			x.fail("weightboot:replicates-identical", text, stderr, exit, "vectors %d and %d are identical: replicates are not drawn one after the other", i-1, i)
			return nil, false
		}
	}
	return vs, true
}

func runCli(c *mon.Case) {
	if !cliSetup() {
		return // the floors cli:* are missed: INCONCLUSIVE, not a violation
	}
	dir, err := os.MkdirTemp(cliDir, "case-")
	if err != nil {
		panic("harness: " + err.Error())
	}
	defer os.RemoveAll(dir)
	if c.Verbose {
		defer func() { os.RemoveAll(cliDir); cliBin, cliDir = "", "" }()
	}
	r := c.R
	x := &cliCtx{c: c, dir: dir, k: &cliCase{N: -1}}
	defer func() { c.Add("cli:runs", x.runs) }()
	k := x.k
	round := c.Idx / 10
	switch c.Idx % 10 {
	case 8:
		k.Kind = "refused"
		x.refused(r, round)
		return
	case 9:
		k.Kind = "distribution"
	default:
		k.Kind = "weights"
	}
	L := cliLength(r, c.Idx)
	n := 1
	var flags []string
	if k.Kind == "distribution" {
		L = r.Range(3, 8)
		n = ksN
		k.N = n
		flags = append(flags, "-n", strconv.Itoa(n))
	} else {
		switch (c.Idx / 2) % 5 {
		case 0: // flag omitted: documented default 1
			c.Count("cli:flag:nboot-omitted")
		case 1:
			n = 1
		case 2:
			n = 2
		case 3:
			n = r.Range(3, 9)
		default:
			n = r.PickInt([]int{17, 40})
		}
		if (c.Idx/2)%5 != 0 {
			k.N = n
			if r.Bool() {
				flags = append(flags, "-n", strconv.Itoa(n))
				c.Count("cli:flag:-n")
			} else {
				flags = append(flags, "--nboot="+strconv.Itoa(n))
				c.Count("cli:flag:--nboot")
			}
		}
	}
	inArgs := x.writeInput(r, L, c.Idx/3)
	seeded := k.Kind == "distribution" || c.Idx%5 != 4
	var seed int64
	if seeded {
		for seed = genSeed(r); seed == -1; seed = genSeed(r) { // -1 is documented as "take the clock"
		}
		k.Seed = strconv.FormatInt(seed, 10)
		flags = append(flags, "--seed", k.Seed)
		c.Count("cli:flag:--seed")
	} else if r.Bool() {
		flags = append(flags, "--seed=-1")
		c.Count("cli:flag:--seed=-1")
	} else {
		c.Count("cli:flag:seed-omitted")
	}
	out := ""
	if c.Idx%3 == 1 {
		out = "weights.txt"
		flags = append(flags, r.PickStr([]string{"-o", "--output"}), out)
		c.Count("cli:flag:output-file")
	} else {
		c.Count("cli:flag:output-stdout")
	}
	if r.Chance(0.5) {
		// the global --threads option: the replicates are still written one after the other
		t := r.PickStr([]string{"2", "4", "8", "16"})
		flags = append(flags, r.PickStr([]string{"-t", "--threads"}), t)
		c.Count("cli:flag:threads>1")
	}
	args := []string{"build", "weightboot"}
	if r.Bool() {
		args = append(append(args, flags...), inArgs...)
	} else {
		args = append(append(args, inArgs...), flags...)
	}
	k.Args = args
	c.Input(k)
	c.Checkpoint()
	exec1 := func(a []string) (text, stdout, stderr string, exit int, ok bool) {
		os.Remove(filepath.Join(dir, "weights.txt"))
		stdout, stderr, exit = x.run(a)
		text = stdout
		if crashed(stdout, stderr, exit) {
			x.fail("weightboot:crash", stdout, stderr, exit, "the command crashed")
			return
		}
		if exit != 0 {
			x.fail("weightboot:unexpected-error", stdout, stderr, exit, "the command failed on a valid request")
			return
		}
		if out != "" {
			b, err := os.ReadFile(filepath.Join(dir, out))
			if err != nil {
				x.fail("weightboot:no-output-file", stdout, stderr, exit, "-o %s: %v", out, err)
				return
			}
			if strings.TrimSpace(stdout) != "" {
				x.fail("weightboot:output-on-stdout-too", stdout, stderr, exit, "-o %s given and text on stdout", out)
				return
			}
			text = string(b)
		}
		return text, stdout, stderr, exit, true
	}
	text, stdout, stderr, exit, ok := exec1(args)
	if !ok {
		return
	}
	c.Count("cli:kind:" + k.Kind)
	vs, ok := x.checkVectors(text, stdout, stderr, exit, n, L)
	if !ok {
		return
	}
	if k.Kind == "distribution" {
		j := r.PickInt([]int{0, L - 1, r.Intn(L)})
		xs := make([]float64, len(vs))
		for i, v := range vs {
			xs[i] = v[j] / float64(L)
		}
		d := ksDistance(xs, betaCDF(1, float64(L-1)))
		eps := dkwEps(ksN, ksP) + 1e-6 // + the printed precision
		c.Max("cli-ks-distance-x1e6", int(d*1e6))
		if d > eps {
			x.fail("weightboot:distribution", cliHead(text, 300), stderr, exit, "weight %d / L over %d replicates (L=%d) against Beta(1, %d) (marginal of the documented Dirichlet D(n;1,...,1)): Kolmogorov-Smirnov distance %.5f exceeds %.5f, which a sample of the stated distribution does with probability <= %g", j, ksN, L, L-1, d, eps, ksP)
		}
		c.NonTrivial("cli", strings.Join(args, " "), k.Input)
		c.Note("KS distance %.5f (bound %.5f)", d, eps)
		return
	}
	// a second execution
	text2, stdout2, stderr2, exit2, ok := exec1(args)
	if !ok {
		return
	}
	if seeded {
		if text2 != text {
			x.fail("weightboot:not-replayable", text, stderr, exit, "the same command line with the same seed wrote another text:\n%s", cliHead(text2, 1200))
			return
		}
		c.Count("cli:same-seed-same-output")
		if c.Idx%4 == 0 && seed != math.MaxInt64 {
			a3 := append([]string{}, args...)
			for i := range a3 {
				if a3[i] == "--seed" {
					a3[i+1] = strconv.FormatInt(seed+1, 10)
				}
			}
			text3, stdout3, stderr3, exit3, ok := exec1(a3)
			if !ok {
				return
			}
			if _, ok := x.checkVectors(text3, stdout3, stderr3, exit3, n, L); !ok {
				return
			}
			if text3 == text {
				x.fail("weightboot:seed-ignored", text, stderr, exit, "--seed %d and --seed %d wrote the same text", seed, seed+1)
				return
			}
			c.Count("cli:other-seed-other-output")
		}
	} else {
		if _, ok := x.checkVectors(text2, stdout2, stderr2, exit2, n, L); !ok {
			return
		}
		if text2 == text {
			x.fail("weightboot:clock-seed-constant", text, stderr, exit, "two executions without a seed (documented: seeded by the clock) wrote the same text")
			return
		}
		c.Count("cli:clock-seed-other-output")
	}
	c.NonTrivial("cli", strings.Join(args, " "), k.Input)
	c.Note("goalign %s -> %d vector(s) of %d weights", strings.Join(args, " "), len(vs), L)
}

// refused requests: an error exit with a message, never a crash; alignments shorter than 3 sites are outside
// the quantifier (anything but a crash).
func (x *cliCtx) refused(r *gen.Rand, round int) {
	c := x.c
	k := x.k
	inArgs := x.writeInput(r, r.Range(3, 30), 0)
	args := []string{"build", "weightboot"}
	mustFail := true
	what := ""
	switch round % 8 {
	case 0:
		what = "unknown flag"
		args = append(append(args, inArgs...), r.PickStr([]string{"--nboots", "--seeds=3", "-N", "--outputs"}))
	case 1:
		what = "input file that does not exist"
		args = append(args, "-i", "nosuchfile.fa", "-n", "2")
	case 2:
		what = "number of replicates that is not a number"
		args = append(append(args, inArgs...), "-n", r.PickStr([]string{"two", "1.5", ""}))
	case 3:
		what = "empty input file"
		os.WriteFile(filepath.Join(x.dir, "input.aln"), nil, 0644)
		k.Input = ""
		args = append(args, "-i", "input.aln")
	case 4:
		what = "wrong format option (fasta read as phylip)"
		args = append(args, "-i", "input.aln", "-p", "-n", "2")
	case 5:
		what = "output file in a directory that does not exist"
		args = append(append(args, inArgs...), "-o", "nosuchdir/weights.txt")
	case 6:
		what = "alignment shorter than 3 sites (outside the quantifier)"
		mustFail = false
		L := r.Range(1, 2)
		os.WriteFile(filepath.Join(x.dir, "input.aln"), []byte(">a\n"+r.Str(L, "ACGT")+"\n>b\n"+r.Str(L, "ACGT")+"\n"), 0644)
		k.Input = "2 sequences of " + strconv.Itoa(L) + " site(s)"
		k.Format = "fasta"
		args = append(args, "-i", "input.aln", "-n", "2", "--seed", "1")
	default:
		what = "zero or a negative number of replicates (nobody says: no vector or an error)"
		mustFail = false
		args = append(append(args, inArgs...), "-n", r.PickStr([]string{"0", "-1", "-5"}))
	}
	k.Args = args
	c.Input(k)
	c.Checkpoint()
	stdout, stderr, exit := x.run(args)
	c.Count("cli:kind:refused")
	if crashed(stdout, stderr, exit) {
		x.fail("refused:crash", stdout, stderr, exit, "the command crashed on a request with %s", what)
		return
	}
	if mustFail && exit == 0 {
		x.fail("refused:accepted", stdout, stderr, exit, "exit status 0 for a request with %s", what)
		return
	}
	if mustFail && strings.TrimSpace(stdout+stderr) == "" {
		x.fail("refused:no-message", stdout, stderr, exit, "exit status %d without any message for a request with %s", exit, what)
		return
	}
	if round%8 == 7 && exit == 0 && strings.TrimSpace(stdout) != "" {
		x.fail("refused:vectors-for-no-replicate", stdout, stderr, exit, "weight vectors written for %s", what)
		return
	}
	c.Count("cli:refused-checked")
	c.NonTrivial("cli", strings.Join(args, " "))
}

const cliRule = "cli: one case = `goalign build weightboot` (binary built from the tree under test) on an alignment of 3, 4-10, 11-100, 101-600 or 1500 sites written as fasta / phylip / strict phylip / phylip with 2-3 alignments of different lengths (documented: the first one only) / nexus / clustal / stockholm, format flag or --auto-detect, -n | --nboot 1, 2, 3-9, 17, 40 or omitted (default 1), --seed given (any int64 but -1) / -1 / omitted, -o | --output file or stdout: every written vector has one weight per site of the first alignment, finite, not negative, sum = alignment length, not constant, replicates differ; the same command line again writes the same text (seed) or another one (clock), seed+1 another one; 1 case in 10: 20000 replicates, Kolmogorov-Smirnov distance of one coordinate / L to Beta(1, L-1) below the DKW bound; 1 case in 10: refused requests (unknown flag, missing / empty input, wrong format flag, bad -n, unwritable output): error exit with a message, never a crash"

const cliAssumptions = "cli: weights are printed with 6 decimals: a drawn weight below 5e-7 prints as 0.000000 (counted, accepted; a printed minus sign is a violation) and the sum is compared with tolerance L x 0.5e-6; two executions without --seed (or with the documented -1) are seeded by the clock and must differ; alignments shorter than 3 sites and -n <= 0 are outside the statement: anything but a crash (and no vector for -n <= 0); `goalign build tntweightboot` is not part of the binary (cmd/tntweightboot.go is excluded by `+build ignore`): not covered; goalign's own nexus / clustal / stockholm writers produce the inputs in those formats"

func cliFloors() {
	mon.Floor("cli:runs", 200)
	mon.Floor("cli:kind:weights", 100)
	mon.Floor("cli:kind:distribution", 12)
	mon.Floor("cli:kind:refused", 12)
	mon.Floor("cli:refused-checked", 12)
	mon.Floor("cli:vectors-checked", 1000)
	mon.Floor("cli:same-seed-same-output", 60)
	mon.Floor("cli:other-seed-other-output", 10)
	mon.Floor("cli:clock-seed-other-output", 15)
	mon.Floor("cli:flag:nboot-omitted", 15)
	mon.Floor("cli:flag:output-file", 30)
	for _, f := range []string{"fasta", "phylip", "phylip-multi", "phylip-strict", "nexus", "clustal", "stockholm"} {
		mon.Floor("cli:format:"+f, 8)
	}
	mon.Floor("cli:auto-detect", 10)
}
