// C20 monitor: random site weights (weighted bootstrap), Dirichlet / gamma variates,
// discrete-gamma rate categories and the incomplete gamma ratio they rely on.
//
// Every call of the real code is followed by the checks the statement lists (size, sign, finiteness,
// normalisation, monotonicity, error reports), by an independent evaluation of the mathematical
// definition where there is one (series of the incomplete gamma ratio, Yang's category rates) and,
// for the random variates, by a replay under the same seed and a Kolmogorov-Smirnov support test
// against the documented distribution with a non-asymptotic false-alarm bound.
//
// The monitor owns the global math/rand stream: it is single-goroutine and calls rand.Seed before
// every draw.
package main

import (
	"fmt"
	"math"
	"math/rand"
	"strings"
	"time"

	"github.com/evolbioinfo/goalign/align"
	"github.com/evolbioinfo/goalign/distance/dna"
	"github.com/evolbioinfo/goalign/models"
	"github.com/evolbioinfo/goalign/stats"
	"gonum.org/v1/gonum/mathext"
	"gonum.org/v1/gonum/stat/distuv"

	"verif/lib/gen"
	"verif/lib/h"
	"verif/lib/mon"
)

const (
	sumTol     = 1e-9  // relative tolerance of every normalisation check
	negTol     = 1e-12 // a rate may be this much below 0 (difference of two ratios accurate to 1e-8 scaled by k: measured -2e-15)
	orderTol   = 1e-9  // rates may decrease by this much (alpha=0.01, many categories: lowest rates are ~1e-60, wobble < 1e-14)
	incSerTol  = 1e-6  // IncompleteGamma vs its series (the routine states 1e-8; measured 7e-9)
	incMonoTol = 1e-7  // IncompleteGamma may decrease by this much along x
	ksN        = 20000 // draws per distribution support test
	ksP        = 1e-15 // false-alarm bound of one support test (DKW)
)

var below1 = math.Nextafter(1, 0)
var above1 = math.Nextafter(1, 2)

func logU(r *gen.Rand, lo, hi float64) float64 {
	return math.Exp(math.Log(lo) + r.Float()*(math.Log(hi)-math.Log(lo)))
}

func genSeed(r *gen.Rand) int64 {
	switch r.Intn(16) {
	case 0:
		return 0
	case 1:
		return 1
	case 2:
		return -1
	case 3:
		return math.MaxInt64
	case 4:
		return math.MinInt64
	case 5:
		return int64(r.Intn(100))
	}
	return int64(r.U64())
}

// one shape parameter of [0.01,100] with its class
func genShape(r *gen.Rand) (float64, string) {
	switch r.Intn(12) {
	case 0:
		return 1, "=1"
	case 1:
		return below1, "<1"
	case 2:
		return above1, ">1"
	case 3:
		return 0.01, "<1"
	case 4:
		return 100, ">1"
	case 5, 6, 7:
		return logU(r, 0.01, 1), "<1"
	case 8:
		return float64(r.Range(2, 100)), ">1"
	}
	a := logU(r, 1, 100)
	if a == 1 {
		return a, "=1"
	}
	return a, ">1"
}

// a parameter vector of the Dirichlet distribution and its class
func genAlpha(r *gen.Rand, n int) ([]float64, string) {
	a := make([]float64, n)
	class := ""
	switch r.Intn(8) {
	case 0:
		class = "all<1"
		for i := range a {
			a[i] = logU(r, 0.01, 1)
			if a[i] >= 1 {
				a[i] = below1
			}
		}
	case 1:
		class = "all=1"
		for i := range a {
			a[i] = 1
		}
	case 2:
		class = "all>1"
		for i := range a {
			a[i] = logU(r, 1, 100)
			if a[i] <= 1 {
				a[i] = above1
			}
		}
	case 3:
		class = "near1"
		for i := range a {
			a[i] = r.PickF([]float64{below1, 1, above1, 1 - 1e-9, 1 + 1e-9})
		}
	case 4:
		class = "extreme"
		for i := range a {
			a[i] = r.PickF([]float64{0.01, 100, 0.01, 100, 1})
		}
	case 5:
		class = "all0.01"
		for i := range a {
			a[i] = 0.01
		}
	default:
		class = "mixed"
		for i := range a {
			a[i], _ = genShape(r)
		}
	}
	return a, class
}

func mkAlign(r *gen.Rand, L int) align.Alignment {
	n := 1 + r.Intn(3)
	rows := make(gen.Rows, n)
	for i := range rows {
		rows[i] = gen.Seq{Name: "s" + gen.Itoa(i), Seq: r.Str(L, "ACGT-N")}
	}
	return h.MkAlign(rows, align.NUCLEOTIDS)
}

func sameBits(a, b []float64) bool {
	if len(a) != len(b) {
		return false
	}
	for i := range a {
		if math.Float64bits(a[i]) != math.Float64bits(b[i]) {
			return false
		}
	}
	return true
}

func short(v []float64) string {
	if len(v) <= 12 {
		return fmt.Sprintf("%v", v)
	}
	return fmt.Sprintf("%v ... %v (%d values)", v[:6], v[len(v)-3:], len(v))
}

// checkVector: n entries, finite, >= 0 (> 0 when strict), sum == total within sumTol.
func checkVector(c *mon.Case, op string, v []float64, n int, total float64, strict bool, ctx string) bool {
	if len(v) != n {
		c.Failf(op+":length", "%s: %d values for %d requested; %s", op, len(v), n, ctx)
		return false
	}
	sum := 0.0
	for i, x := range v {
		if math.IsNaN(x) || math.IsInf(x, 0) {
			c.Failf(op+":not-finite", "%s: entry %d is %v; %s values=%s", op, i, x, ctx, short(v))
			return false
		}
		if x < 0 || (strict && x == 0) {
			c.Failf(op+":not-positive", "%s: entry %d is %v; %s values=%s", op, i, x, ctx, short(v))
			return false
		}
		sum += x
	}
	if math.Abs(sum-total) > sumTol*math.Abs(total) {
		c.Failf(op+":sum", "%s: values sum to %.17g, requested total %.17g; %s values=%s", op, sum, total, ctx, short(v))
		return false
	}
	return true
}

// ---------------------------------------------------------------------------------------------
// weights: BuildWeightsDirichlet / BuildWeightsGamma

func genLength(r *gen.Rand) int {
	switch r.Intn(20) {
	case 0, 1, 2:
		return 3
	case 3, 4:
		return r.Range(4, 10)
	case 5:
		if r.Chance(0.04) {
			return r.PickInt([]int{32773, 50001, 65539}) // long alignments, lengths that are no multiple of 8 / 16
		}
		return r.PickInt([]int{1999, 2000})
	case 6, 7, 8, 9, 10, 11:
		return r.Range(11, 100)
	}
	return r.Range(101, 2000)
}

func sum(v []float64) float64 {
	t := 0.0
	for _, x := range v {
		t += x
	}
	return t
}

func runWeights(c *mon.Case) {
	r := c.R
	L := genLength(r)
	seed := genSeed(r)
	al := mkAlign(r, L)
	c.Input(map[string]interface{}{"L": L, "seed": seed, "rows": al.NbSequences()})
	lc := "L:>100"
	if L == 3 {
		lc = "L:3"
	} else if L <= 10 {
		lc = "L:4-10"
	} else if L <= 100 {
		lc = "L:11-100"
	}
	c.Count(lc)
	for _, b := range []struct {
		name string
		f    func(align.Alignment) []float64
	}{{"BuildWeightsDirichlet", dna.BuildWeightsDirichlet}, {"BuildWeightsGamma", dna.BuildWeightsGamma}} {
		ctx := fmt.Sprintf("L=%d seed=%d", L, seed)
		rand.Seed(seed)
		w := b.f(al)
		c.Count("op:" + b.name)
		if !checkVector(c, b.name, w, L, float64(L), true, ctx) {
			continue
		}
		kept := append([]float64{}, w...) // the caller keeps w while it draws the vectors of other replicates / alignments
		rand.Seed(seed)
		w2 := b.f(al)
		if !sameBits(w, w2) {
			c.Failf(b.name+":not-replayable", "%s: the same seed gave two different vectors; %s\nfirst =%s\nsecond=%s", b.name, ctx, short(w), short(w2))
		}
		rand.Seed(seed + 1)
		w3 := b.f(al)
		if !checkVector(c, b.name, w3, L, float64(L), true, fmt.Sprintf("L=%d seed=%d", L, seed+1)) {
			continue
		}
		other := b.f(mkAlign(r, L+r.PickInt([]int{1, 5, -1, 40})+1))
		if !sameBits(w, kept) {
			c.Failf(b.name+":vector-overwritten-by-a-later-call", "%s: the vector returned for %s changed while later vectors were drawn (same alignment under two seeds, then an alignment of %d sites): it now sums to %v\nas returned=%s\nnow        =%s", b.name, ctx, len(other), sum(w), short(kept), short(w))
			continue
		}
		if sameBits(w, w3) {
			c.Count("same-vector-under-another-seed:" + b.name)
		}
		equal := true
		for i := 1; i < L; i++ {
			if w[i] != w[0] {
				equal = false
			}
		}
		if equal {
			c.Failf(b.name+":constant", "%s: all %d weights are equal to %v: nothing was drawn; %s", b.name, L, w[0], ctx)
		}
		if al.Length() != L {
			c.Failf(b.name+":alignment-changed", "alignment length is %d after the call, was %d", al.Length(), L)
		}
		if b.name == "BuildWeightsGamma" {
			c.Note("L=%d seed=%d gamma weights %s", L, seed, short(w))
		}
	}
	c.NonTrivial(fmt.Sprint(L), fmt.Sprint(seed))
}

// ---------------------------------------------------------------------------------------------
// dirichlet: stats.Dirichlet / stats.Dirichlet1, valid and invalid parameters

func genFactor(r *gen.Rand, n int) (float64, string) {
	switch r.Intn(4) {
	case 0:
		return 1, "factor:1"
	case 1, 2:
		return float64(n), "factor:n"
	}
	return logU(r, 1e-3, 1e6), "factor:other"
}

func runDirichlet(c *mon.Case) {
	r := c.R
	n := 3
	switch r.Intn(10) {
	case 0, 1:
		n = 3
	case 2:
		n = 4
	case 3:
		n = 50
	case 4:
		n = r.PickInt([]int{51, 100, 333, 1000})
	default:
		n = r.Range(5, 49)
	}
	alpha, class := genAlpha(r, n)
	factor, fclass := genFactor(r, n)
	if n <= 50 && (class == "all<1" || class == "all0.01") && r.Chance(0.25) {
		// a huge total with small shapes (the raw gamma draws are tiny: total / their sum is far beyond the largest
		// float, total x proportion is not)
		factor, fclass = r.PickF([]float64{1e300, 1e290}), "factor:huge"
	}
	seed := genSeed(r)
	c.Input(map[string]interface{}{"factor": factor, "alpha": alpha, "seed": seed, "class": class})
	ctx := fmt.Sprintf("factor=%v seed=%d alpha(%s)=%s", factor, seed, class, short(alpha))

	rand.Seed(seed)
	s, err := stats.Dirichlet(factor, alpha...)
	c.Count("op:Dirichlet")
	c.Count("alpha:" + class)
	c.Count(fclass)
	if err != nil {
		c.Failf("Dirichlet:unexpected-error", "Dirichlet refused valid parameters: %v; %s", err, ctx)
	} else if checkVector(c, "Dirichlet", s, n, factor, false, ctx) {
		rand.Seed(seed)
		s2, _ := stats.Dirichlet(factor, alpha...)
		if !sameBits(s, s2) {
			c.Failf("Dirichlet:not-replayable", "the same seed gave two different samples; %s\nfirst =%s\nsecond=%s", ctx, short(s), short(s2))
		}
		zeros := 0
		for _, x := range s {
			if x == 0 {
				zeros++
			}
		}
		if zeros > 0 {
			c.Count("Dirichlet:sample-with-underflowed-entry")
		}
		c.Note("Dirichlet(%v; %s) seed %d -> %s", factor, class, seed, short(s))
	}

	// Dirichlet1: the flat case by sorted uniforms
	rand.Seed(seed)
	s1, err := stats.Dirichlet1(factor, n)
	c.Count("op:Dirichlet1")
	if err != nil {
		c.Failf("Dirichlet1:unexpected-error", "Dirichlet1(%v,%d) refused valid parameters: %v", factor, n, err)
	} else if checkVector(c, "Dirichlet1", s1, n, factor, false, fmt.Sprintf("factor=%v n=%d seed=%d", factor, n, seed)) {
		rand.Seed(seed)
		s2, _ := stats.Dirichlet1(factor, n)
		if !sameBits(s1, s2) {
			c.Failf("Dirichlet1:not-replayable", "the same seed gave two different samples; factor=%v n=%d seed=%d", factor, n, seed)
		}
	}

	// invalid parameter vectors: one alpha <= 0 somewhere, or fewer than the documented number of values
	switch r.Intn(4) {
	case 0, 1:
		bad := append([]float64(nil), alpha...)
		pos := r.PickInt([]int{0, n - 1, r.Intn(n)})
		kind := r.Intn(5)
		switch kind {
		case 0:
			bad[pos] = 0
		case 1:
			bad[pos] = math.Copysign(0, -1)
		case 2:
			bad[pos] = -logU(r, 1e-9, 100)
		case 3:
			bad[pos] = math.Inf(-1)
		case 4:
			bad[pos] = -1
		}
		rand.Seed(seed)
		bs, err := stats.Dirichlet(factor, bad...)
		c.Count("invalid:alpha<=0")
		switch pos {
		case 0:
			c.Count("invalid-position:first")
		case n - 1:
			c.Count("invalid-position:last")
		default:
			c.Count("invalid-position:inner")
		}
		if err == nil {
			c.Failf("Dirichlet:invalid-alpha-accepted", "Dirichlet accepted alpha[%d]=%v (no error); factor=%v alpha=%s -> %s", pos, bad[pos], factor, short(bad), short(bs))
		}
	case 2:
		k := r.Intn(3) // 0, 1 or 2 values
		rand.Seed(seed)
		bs, err := stats.Dirichlet(factor, alpha[:k]...)
		c.Count(fmt.Sprintf("invalid:%d-values", k))
		if err == nil {
			if k < 2 {
				c.Failf("Dirichlet:too-few-values-accepted", "Dirichlet accepted %d parameter(s) (no error) -> %v", k, bs)
			} else {
				// two values: the message documents "less than 2 values", the code refuses 2 as well; a correct sample is accepted too
				checkVector(c, "Dirichlet", bs, k, factor, false, "two parameters")
			}
		}
	case 3:
		k := r.PickInt([]int{2, 1, 0, -1, -5, math.MinInt64})
		bs, err := stats.Dirichlet1(factor, k)
		c.Count("invalid:Dirichlet1-nvalues<=2")
		if err == nil {
			if k == 2 {
				checkVector(c, "Dirichlet1", bs, k, factor, false, "two values")
			} else {
				c.Failf("Dirichlet1:too-few-values-accepted", "Dirichlet1 accepted nvalues=%d (no error) -> %v", k, bs)
			}
		}
	}
	c.NonTrivial(fmt.Sprint(factor), fmt.Sprint(alpha), fmt.Sprint(seed))
}

// ---------------------------------------------------------------------------------------------
// dist: distribution support tests (documentation: "returns a random number of gamma distribution",
// "random numbers from dirichlet distribution", "Weights follow a Dirichlet distribution D(n;1,...,1)")

func betaCDF(a, b float64) func(float64) float64 {
	d := distuv.Beta{Alpha: a, Beta: b}
	return func(x float64) float64 {
		if x <= 0 {
			return 0
		}
		if x >= 1 {
			return 1
		}
		return d.CDF(x)
	}
}

func runDist(c *mon.Case) {
	r := c.R
	seed := genSeed(r)
	eps := dkwEps(ksN, ksP)
	xs := make([]float64, ksN)
	var cdf func(float64) float64
	var what, kind string
	rand.Seed(seed)
	switch c.Idx % 7 {
	case 0, 1: // stats.Gamma(shape, scale)
		kind = "Gamma"
		a, cl := genShape(r)
		b := 1.0
		if r.Chance(0.7) {
			b = logU(r, 0.01, 100)
		}
		what = fmt.Sprintf("stats.Gamma(alpha=%v, beta=%v) against Gamma(shape alpha, scale beta)", a, b)
		c.Count("ks:Gamma:shape" + cl)
		for i := range xs {
			xs[i] = stats.Gamma(a, b)
		}
		g := distuv.Gamma{Alpha: a, Beta: 1 / b}
		cdf = g.CDF
	case 2: // one coordinate of stats.Dirichlet
		kind = "Dirichlet"
		n := r.Range(3, 8)
		alpha, cl := genAlpha(r, n)
		factor, _ := genFactor(r, n)
		j := r.Intn(n)
		a0 := 0.0
		for _, a := range alpha {
			a0 += a
		}
		if a0-alpha[j] < 0.5 {
			// Beta(a,b) with a tiny b puts a large part of its mass within one ulp of 1, where doubles cannot
			// resolve it: keep the law of the observed coordinate testable
			k := (j + 1) % n
			a0 += 1 - alpha[k]
			alpha[k] = 1
			cl += "+1"
		}
		what = fmt.Sprintf("coordinate %d of stats.Dirichlet(%v, %v) / factor against Beta(%v, %v)", j, factor, alpha, alpha[j], a0-alpha[j])
		c.Count("ks:Dirichlet:" + cl)
		for i := range xs {
			s, err := stats.Dirichlet(factor, alpha...)
			if err != nil {
				c.Failf("Dirichlet:unexpected-error", "%v for alpha=%v", err, alpha)
				return
			}
			xs[i] = s[j] / factor
		}
		cdf = betaCDF(alpha[j], a0-alpha[j])
	case 3:
		kind = "Dirichlet1"
		n := r.Range(3, 10)
		factor, _ := genFactor(r, n)
		j := r.PickInt([]int{0, n - 1, r.Intn(n)})
		what = fmt.Sprintf("coordinate %d of stats.Dirichlet1(%v, %d) / factor against Beta(1, %d)", j, factor, n, n-1)
		for i := range xs {
			s, err := stats.Dirichlet1(factor, n)
			if err != nil {
				c.Failf("Dirichlet1:unexpected-error", "%v for n=%d", err, n)
				return
			}
			xs[i] = s[j] / factor
		}
		cdf = betaCDF(1, float64(n-1))
	case 4:
		kind = "BuildWeightsDirichlet"
		L := r.Range(3, 10)
		al := mkAlign(r, L)
		j := r.PickInt([]int{0, L - 1, r.Intn(L)})
		what = fmt.Sprintf("weight %d of BuildWeightsDirichlet (L=%d) / L against Beta(1, %d)", j, L, L-1)
		for i := range xs {
			xs[i] = dna.BuildWeightsDirichlet(al)[j] / float64(L)
		}
		cdf = betaCDF(1, float64(L-1))
	case 5:
		// documented: gamma fitted to the binomial B(n, 1/n) by its mean and variance: shape = mean^2/var = n/(n-1),
		// (the scale cancels in the normalisation), so weight/L ~ Beta(a, (L-1)a) with a = L/(L-1)
		kind = "BuildWeightsGamma"
		L := r.Range(3, 10)
		al := mkAlign(r, L)
		j := r.PickInt([]int{0, L - 1, r.Intn(L)})
		a := float64(L) / float64(L-1)
		what = fmt.Sprintf("weight %d of BuildWeightsGamma (L=%d) / L against Beta(%v, %v)", j, L, a, a*float64(L-1))
		for i := range xs {
			xs[i] = dna.BuildWeightsGamma(al)[j] / float64(L)
		}
		cdf = betaCDF(a, a*float64(L-1))
	case 6:
		// continuous rates: Gamma(alpha, rate alpha), mean 1 (drawn by gonum from its own stream: not replayable by seed)
		kind = "GenerateRates-continuous"
		a := logU(r, 0.05, 100)
		what = fmt.Sprintf("GenerateRates(%d, gamma, alpha=%v, continuous) against Gamma(shape alpha, rate alpha)", ksN, a)
		rates, cats := models.GenerateRates(ksN, true, a, r.Range(0, 8), false)
		if len(rates) != ksN || len(cats) != ksN {
			c.Failf("GenerateRates:length", "%d rates, %d categories for %d sites", len(rates), len(cats), ksN)
			return
		}
		for i, x := range rates {
			if !(x >= 0) || math.IsInf(x, 0) {
				c.Failf("GenerateRates:continuous-rate-invalid", "rate %d is %v (alpha=%v)", i, x, a)
				return
			}
		}
		copy(xs, rates)
		g := distuv.Gamma{Alpha: a, Beta: a}
		cdf = g.CDF
	}
	c.Input(map[string]interface{}{"test": what, "seed": seed, "draws": ksN})
	for i, x := range xs {
		if math.IsNaN(x) || math.IsInf(x, 0) || x < 0 {
			c.Failf(kind+":draw-invalid", "draw %d is %v; %s seed=%d", i, x, what, seed)
			return
		}
	}
	d := ksDistance(xs, cdf)
	c.Count("op:ks:" + kind)
	c.Max("ks-distance-x1e6:"+kind, int(d*1e6))
	c.Note("KS distance %.5f (bound %.5f)", d, eps)
	if d > eps {
		c.Failf(kind+":distribution", "%s: Kolmogorov-Smirnov distance %.5f over %d draws (seed %d) exceeds %.5f, which a sample of the stated distribution does with probability <= %g", what, d, ksN, seed, eps, ksP)
	}
	c.NonTrivial(what, fmt.Sprint(seed))
}

// ---------------------------------------------------------------------------------------------
// dgamma: DiscreteGamma(alpha, k)

const gridN = 60

func gridAlpha(i int) float64 {
	if i == gridN-1 {
		return 100
	}
	return 0.01 * math.Pow(10000, float64(i)/float64(gridN-1))
}

func checkDiscreteGamma(c *mon.Case, alpha float64, k int) []float64 {
	rates := models.DiscreteGamma(alpha, k)
	ctx := fmt.Sprintf("DiscreteGamma(alpha=%v, ncat=%d)", alpha, k)
	c.Count("op:DiscreteGamma")
	if len(rates) != k {
		c.Failf("DiscreteGamma:length", "%s returned %d rates", ctx, len(rates))
		return nil
	}
	sum := 0.0
	for i, x := range rates {
		if math.IsNaN(x) || math.IsInf(x, 0) {
			c.Failf("DiscreteGamma:not-finite", "%s: rate %d is %v; rates=%v", ctx, i, x, rates)
			return nil
		}
		if x < -negTol {
			c.Failf("DiscreteGamma:negative", "%s: rate %d is %v; rates=%v", ctx, i, x, rates)
			return nil
		}
		if i > 0 && x < rates[i-1]-orderTol {
			c.Failf("DiscreteGamma:decreasing", "%s: rate %d = %v < rate %d = %v; rates=%v", ctx, i, x, i-1, rates[i-1], rates)
			return nil
		}
		sum += x
	}
	if math.Abs(sum/float64(k)-1) > sumTol {
		c.Failf("DiscreteGamma:mean", "%s: rates average to %.17g instead of 1; rates=%v", ctx, sum/float64(k), rates)
		return nil
	}
	// the categories are those of Yang's discrete gamma (mean or median variant)
	mean, median := yangRates(alpha, k)
	tol := 1e-7*float64(k) + 1e-9
	dm, dd := 0.0, 0.0
	for i := range rates {
		dm = math.Max(dm, math.Abs(rates[i]-mean[i]))
		dd = math.Max(dd, math.Abs(rates[i]-median[i]))
	}
	c.Max("DiscreteGamma-vs-Yang-x1e12", int(dm*1e12))
	if dm > tol && dd > tol {
		c.Failf("DiscreteGamma:not-yang-categories", "%s: rates differ from Yang's (1994) category means by %g and from the normalised category medians by %g (tolerance %g)\nrates =%v\nmeans =%v\nmedian=%v", ctx, dm, dd, tol, rates, mean, median)
	} else if dm <= tol {
		c.Count("DiscreteGamma:matches-category-means")
	} else {
		c.Count("DiscreteGamma:matches-category-medians")
	}
	if !(rates[k-1] > rates[0]) {
		c.Failf("DiscreteGamma:constant", "%s: highest rate %v not above lowest %v", ctx, rates[k-1], rates[0])
	}
	return rates
}

func runDGamma(c *mon.Case) {
	r := c.R
	var alpha float64
	var k int
	if c.Idx < gridN*31 {
		alpha, k = gridAlpha(c.Idx/31), 2+c.Idx%31
		c.Count("dgamma:grid-cell")
	} else {
		alpha, _ = genShape(r)
		k = r.Range(2, 32)
		if r.Chance(0.2) {
			k = r.PickInt([]int{2, 32, 13, 4})
		}
		c.Count("dgamma:random")
	}
	switch {
	case alpha < 1:
		c.Count("dgamma:alpha<1")
	case alpha == 1:
		c.Count("dgamma:alpha=1")
	default:
		c.Count("dgamma:alpha>1")
	}
	c.Count(fmt.Sprintf("dgamma:k=%d", k))
	c.Input(map[string]interface{}{"alpha": alpha, "ncat": k})
	rates := checkDiscreteGamma(c, alpha, k)
	if rates != nil {
		c.Note("rates %s", short(rates))
		// the caller owns what it received: it scales its rates in place (by a branch length, say), then asks again
		first := append([]float64{}, rates...)
		for i := range rates {
			rates[i] *= 0.05
		}
		again := models.DiscreteGamma(alpha, k)
		if !sameBits(first, again) {
			c.Failf("DiscreteGamma:not-deterministic", "two calls with alpha=%v ncat=%d differ (the first result was scaled in place by its caller in between): %v / %v", alpha, k, first, again)
		}
		rates = first
	}
	c.NonTrivial(fmt.Sprint(alpha), fmt.Sprint(k))
}

// ---------------------------------------------------------------------------------------------
// incgamma: IncompleteGamma(x, a, lnGamma(a)) along an increasing sequence of x

func genA(r *gen.Rand, idx int) float64 {
	switch r.Intn(10) {
	case 0, 1, 2:
		// the grid of DiscreteGamma's shapes (+1: the routine is called with alpha+1) and the shapes themselves
		a := gridAlpha(idx % gridN)
		if r.Bool() {
			a++
		}
		return a
	case 3:
		return r.PickF([]float64{0.01, 0.5, 1, below1, above1, 1.01, 2, 2.01, 10, 100, 101})
	case 4:
		return float64(r.Range(1, 101))
	}
	return logU(r, 0.01, 101)
}

func genXs(r *gen.Rand, a float64) ([]float64, string) {
	const n = 64
	xs := make([]float64, 0, n+3)
	pat := ""
	switch r.Intn(6) {
	case 0:
		pat = "uniform-0-500"
		off := r.Float() * 500 / n
		for i := 0; i < n; i++ {
			xs = append(xs, off+float64(i)*500/n)
		}
		xs = append(xs, 500)
	case 1:
		pat = "around-x=a"
		d := r.PickF([]float64{1e-9, 1e-3, 0.05, 0.5}) * math.Max(1, math.Sqrt(a))
		for i := -n / 2; i <= n/2; i++ {
			if x := a + float64(i)*d; x >= 0 {
				xs = append(xs, x)
			}
		}
	case 2:
		pat = "around-x=1"
		d := r.PickF([]float64{1e-12, 1e-6, 1e-3, 0.03})
		for i := -n / 2; i <= n/2; i++ {
			if x := 1 + float64(i)*d; x >= 0 {
				xs = append(xs, x)
			}
		}
	case 3:
		pat = "log-grid"
		xs = append(xs, 0)
		lo := r.PickF([]float64{1e-300, 1e-30, 1e-12, 1e-3})
		for i := 0; i < n; i++ {
			xs = append(xs, lo*math.Pow(500/lo, float64(i)/float64(n-1)))
		}
		xs[len(xs)-1] = 500
	default:
		pat = "random"
		hi := r.PickF([]float64{2, 2*a + 10, a + 6*math.Sqrt(a) + 5, 500})
		if hi > 500 {
			hi = 500
		}
		x := 0.0
		if r.Bool() {
			xs = append(xs, 0)
		}
		for i := 0; i < n; i++ {
			x += -math.Log(1-r.Float()) * hi / n
			if x > 500 {
				break
			}
			xs = append(xs, x)
		}
	}
	return xs, pat
}

func checkIncGamma(c *mon.Case, x, a, lg float64) (float64, bool) {
	v := models.IncompleteGamma(x, a, lg)
	c.Count("op:IncompleteGamma")
	series := x <= 1 || x < a
	if series {
		c.Count("branch:series")
	} else {
		c.Count("branch:continued-fraction")
	}
	if x == a {
		c.Count("boundary:x==a")
	}
	if x == 1 {
		c.Count("boundary:x==1")
	}
	if x == 0 {
		c.Count("boundary:x==0")
	}
	if math.IsNaN(v) || v < 0 || v > 1 {
		c.Failf("IncompleteGamma:out-of-range", "IncompleteGamma(x=%v, alpha=%v) = %.17g is not in [0,1]", x, a, v)
		return v, false
	}
	s := seriesP(x, a)
	if g := mathext.GammaIncReg(a, x); math.Abs(g-s) > 1e-9 {
		c.Failf("harness:series-oracle", "series %v and gonum's GammaIncReg %v disagree for x=%v a=%v", s, g, x, a)
		return v, false
	}
	if d := math.Abs(v - s); d > incSerTol {
		c.Failf("IncompleteGamma:differs-from-series", "IncompleteGamma(x=%v, alpha=%v) = %.12g, series sum_n e^-x x^(a+n)/Gamma(a+n+1) = %.12g (difference %g)", x, a, v, s, d)
		return v, false
	} else {
		c.Max("IncompleteGamma-vs-series-x1e12", int(d*1e12))
	}
	if x == 0 && v != 0 {
		c.Failf("IncompleteGamma:nonzero-at-0", "IncompleteGamma(0, %v) = %v", a, v)
		return v, false
	}
	return v, true
}

// runIncGammaTail: x far in the right tail, up to the largest float64 (the statement says "all x >= 0"): the ratio
// is 1 there (the upper tail is below 1e-300), in [0,1], not a NaN, and the call returns (CPU budget otherwise).
var tailXs = []float64{600, 1e3, 1e4, 1e6, 1e9, 1e15, 1e30, 1e60, 1e100, 1e153, 1e154, 1e155, 1e200, 1e300, math.MaxFloat64}
var tailAs = []float64{0.01, 0.5, 1, 2, 10, 50, 100}

func runIncGammaTail(c *mon.Case) {
	x := tailXs[c.Idx%len(tailXs)]
	a := tailAs[(c.Idx/len(tailXs))%len(tailAs)]
	lg, _ := math.Lgamma(a)
	c.Input(map[string]interface{}{"alpha": a, "x": x})
	c.Checkpoint()
	v := models.IncompleteGamma(x, a, lg)
	if math.IsNaN(v) || v < 0 || v > 1+1e-12 {
		c.Failf("IncompleteGamma:tail-out-of-range", "IncompleteGamma(x=%v, alpha=%v) = %v, not in [0,1]", x, a, v)
		return
	}
	// upper tail Q(a,x) < x^(a-1) e^-x / Gamma(a) * (1 + (a-1)/x + ...) is below 1e-100 for x >= 600 + 4a
	if x >= 600+4*a && math.Abs(v-1) > 1e-8 {
		c.Failf("IncompleteGamma:tail-not-one", "IncompleteGamma(x=%v, alpha=%v) = %.17g, the ratio is 1 within 1e-100 there", x, a, v)
		return
	}
	c.Count("incgamma:right-tail")
	c.NonTrivial(fmt.Sprint(x, a))
}

func runIncGamma(c *mon.Case) {
	r := c.R
	a := genA(r, c.Idx)
	xs, pat := genXs(r, a)
	lg, _ := math.Lgamma(a)
	c.Input(map[string]interface{}{"alpha": a, "x": xs, "pattern": pat})
	c.Count("xs:" + pat)
	switch {
	case a < 1:
		c.Count("incgamma:alpha<1")
	case a <= 2:
		c.Count("incgamma:alpha1-2")
	default:
		c.Count("incgamma:alpha>2")
	}
	prev, prevX := 0.0, 0.0
	for i, x := range xs {
		v, ok := checkIncGamma(c, x, a, lg)
		if !ok {
			return
		}
		if i > 0 && v < prev-incMonoTol {
			c.Failf("IncompleteGamma:decreasing", "alpha=%v: IncompleteGamma(%v)=%.12g but IncompleteGamma(%v)=%.12g", a, prevX, prev, x, v)
			return
		}
		prev, prevX = v, x
	}
	c.Note("alpha=%v pattern=%s last value I(%v)=%v", a, pat, prevX, prev)
	c.NonTrivial(fmt.Sprint(a), fmt.Sprint(xs))
}

// ---------------------------------------------------------------------------------------------
// rates: GenerateRates

func runRates(c *mon.Case) {
	r := c.R
	alpha, _ := genShape(r)
	seed := genSeed(r)
	mode := r.Intn(10)
	switch {
	case mode <= 5: // discrete gamma categories
		k := r.Range(2, 32)
		nsites := r.PickInt([]int{0, 1, 2, 50 * k, 50*k + r.Intn(100), r.Range(3, 200)})
		c.Input(map[string]interface{}{"nsites": nsites, "gamma": true, "alpha": alpha, "ncat": k, "discrete": true, "seed": seed})
		rand.Seed(seed)
		rates, cats := models.GenerateRates(nsites, true, alpha, k, true)
		c.Count("op:GenerateRates:discrete")
		if len(rates) != nsites || len(cats) != nsites {
			c.Failf("GenerateRates:length", "%d rates and %d categories for %d sites", len(rates), len(cats), nsites)
			return
		}
		exp := models.DiscreteGamma(alpha, k)
		if len(exp) != k {
			return // reported by dgamma
		}
		seen := make([]bool, k)
		for i := range rates {
			if cats[i] < 0 || cats[i] >= k {
				c.Failf("GenerateRates:category-out-of-range", "site %d has category %d with %d categories (alpha=%v seed=%d)", i, cats[i], k, alpha, seed)
				return
			}
			seen[cats[i]] = true
			if math.Float64bits(rates[i]) != math.Float64bits(exp[cats[i]]) {
				c.Failf("GenerateRates:rate-not-of-its-category", "site %d: rate %v, category %d whose rate is %v (alpha=%v ncat=%d seed=%d)", i, rates[i], cats[i], exp[cats[i]], alpha, k, seed)
				return
			}
		}
		if nsites >= 50*k {
			c.Count("GenerateRates:all-categories-expected")
			for j, s := range seen {
				if !s {
					c.Failf("GenerateRates:category-never-drawn", "category %d of %d never drawn over %d sites (probability < %g under uniform choice); alpha=%v seed=%d", j, k, nsites, float64(k)*math.Exp(-float64(nsites)/float64(k)), alpha, seed)
					return
				}
			}
		}
		rand.Seed(seed)
		rates2, cats2 := models.GenerateRates(nsites, true, alpha, k, true)
		if !sameBits(rates, rates2) || fmt.Sprint(cats) != fmt.Sprint(cats2) {
			c.Failf("GenerateRates:not-replayable", "the same seed gave different rates (alpha=%v ncat=%d nsites=%d seed=%d)", alpha, k, nsites, seed)
		}
		c.Note("alpha=%v ncat=%d nsites=%d", alpha, k, nsites)
	case mode <= 7: // no rate heterogeneity: gamma off, or fewer than 2 categories
		gamma := r.Bool()
		k := r.Range(2, 32)
		if gamma {
			k = r.PickInt([]int{1, 0, -1})
		}
		nsites := r.Range(0, 100)
		c.Input(map[string]interface{}{"nsites": nsites, "gamma": gamma, "alpha": alpha, "ncat": k, "discrete": true})
		rates, cats := models.GenerateRates(nsites, gamma, alpha, k, true)
		c.Count("op:GenerateRates:homogeneous")
		if len(rates) != nsites || len(cats) != nsites {
			c.Failf("GenerateRates:length", "%d rates and %d categories for %d sites", len(rates), len(cats), nsites)
			return
		}
		for i := range rates {
			if rates[i] != 1 || cats[i] != 0 {
				c.Failf("GenerateRates:homogeneous-not-1", "gamma=%v ncat=%d: site %d has rate %v category %d, expected rate 1 category 0", gamma, k, i, rates[i], cats[i])
				return
			}
		}
	default: // continuous rates
		nsites := r.Range(0, 300)
		k := r.Range(0, 8)
		c.Input(map[string]interface{}{"nsites": nsites, "gamma": true, "alpha": alpha, "ncat": k, "discrete": false})
		rates, cats := models.GenerateRates(nsites, true, alpha, k, false)
		c.Count("op:GenerateRates:continuous")
		if len(rates) != nsites || len(cats) != nsites {
			c.Failf("GenerateRates:length", "%d rates and %d categories for %d sites", len(rates), len(cats), nsites)
			return
		}
		for i, x := range rates {
			if !(x >= 0) || math.IsInf(x, 0) {
				c.Failf("GenerateRates:continuous-rate-invalid", "site %d has rate %v (alpha=%v)", i, x, alpha)
				return
			}
			if cats[i] != 0 {
				c.Failf("GenerateRates:continuous-category", "site %d has category %d in continuous mode", i, cats[i])
				return
			}
		}
	}
	c.NonTrivial(fmt.Sprint(mode), fmt.Sprint(alpha), fmt.Sprint(seed))
}

// ---------------------------------------------------------------------------------------------
// witness: fixed cases (defects found, boundaries, published values)

type witness struct {
	name string
	run  func(c *mon.Case)
}

func expectDirichletError(c *mon.Case, sig string, factor float64, alpha ...float64) {
	c.Input(map[string]interface{}{"call": "stats.Dirichlet", "factor": factor, "alpha": fmt.Sprint(alpha)})
	c.Checkpoint() // a hang is ended by the CPU budget, an os.Exit by the process: the driver then names this case
	rand.Seed(1)
	s, err := stats.Dirichlet(factor, alpha...)
	c.Count("witness:invalid-dirichlet")
	if err == nil {
		c.Failf(sig, "Dirichlet(%v, %v) returned %v without error", factor, alpha, s)
	}
	c.Note("error: %v", err)
}

var witnesses = []witness{
	// defect found on the pinned tree: a NaN / +Inf parameter is not refused and the sampler never accepts a candidate (endless loop)
	{"dirichlet-nan", func(c *mon.Case) { expectDirichletError(c, "Dirichlet:invalid-alpha-accepted", 1, 1, math.NaN(), 1) }},
	{"dirichlet-nan-first", func(c *mon.Case) { expectDirichletError(c, "Dirichlet:invalid-alpha-accepted", 3, math.NaN(), 2, 0.5) }},
	{"dirichlet-inf", func(c *mon.Case) { expectDirichletError(c, "Dirichlet:invalid-alpha-accepted", 1, 1, math.Inf(1), 1) }},
	{"dirichlet-inf-last", func(c *mon.Case) {
		expectDirichletError(c, "Dirichlet:invalid-alpha-accepted", 4, 0.5, 2, 1, math.Inf(1))
	}},
	{"dirichlet-zero", func(c *mon.Case) { expectDirichletError(c, "Dirichlet:invalid-alpha-accepted", 3, 1, 0, 1) }},
	{"dirichlet-negzero", func(c *mon.Case) {
		expectDirichletError(c, "Dirichlet:invalid-alpha-accepted", 3, 1, 1, math.Copysign(0, -1))
	}},
	{"dirichlet-negative", func(c *mon.Case) { expectDirichletError(c, "Dirichlet:invalid-alpha-accepted", 3, -0.5, 1, 1) }},
	{"dirichlet-neginf", func(c *mon.Case) { expectDirichletError(c, "Dirichlet:invalid-alpha-accepted", 3, 1, math.Inf(-1), 1) }},
	{"dirichlet-tiny-negative", func(c *mon.Case) { expectDirichletError(c, "Dirichlet:invalid-alpha-accepted", 3, 1, 1, 1, -5e-324) }},
	{"dirichlet-no-value", func(c *mon.Case) { expectDirichletError(c, "Dirichlet:too-few-values-accepted", 1) }},
	{"dirichlet-one-value", func(c *mon.Case) { expectDirichletError(c, "Dirichlet:too-few-values-accepted", 1, 1) }},
	{"dirichlet-two-values", func(c *mon.Case) {
		// "less than 2 values" says the message, 2 values are refused too: both an error and a correct sample are accepted
		c.Input("stats.Dirichlet(5, 1, 2)")
		rand.Seed(3)
		s, err := stats.Dirichlet(5, 1, 2)
		if err == nil {
			checkVector(c, "Dirichlet", s, 2, 5, false, "two parameters")
		}
	}},
	{"dirichlet1-too-few", func(c *mon.Case) {
		c.Input("stats.Dirichlet1(5, n) for n in 1, 0, -1")
		for _, n := range []int{1, 0, -1} {
			if s, err := stats.Dirichlet1(5, n); err == nil {
				c.Failf("Dirichlet1:too-few-values-accepted", "Dirichlet1(5,%d) returned %v without error", n, s)
			}
		}
	}},
	{"dirichlet-smallest-valid", func(c *mon.Case) {
		// alpha = smallest positive double is > 0: either a sample summing to the total or an error, never a crash
		c.Input("boundary shapes 1-ulp, 1, 1+ulp, 0.01, 100 in one vector, 400 seeds")
		alpha := []float64{below1, 1, above1, 0.01, 100}
		for s := int64(0); s < 400; s++ {
			rand.Seed(s)
			v, err := stats.Dirichlet(7, alpha...)
			if err != nil {
				c.Failf("Dirichlet:unexpected-error", "%v for %v", err, alpha)
				return
			}
			if !checkVector(c, "Dirichlet", v, 5, 7, false, fmt.Sprintf("seed=%d alpha=%v", s, alpha)) {
				return
			}
		}
	}},
	{"dirichlet-all-0.01", func(c *mon.Case) {
		// shape 0.01: a draw underflows to 0 with probability 6e-4; the sample must still sum to the total
		c.Input("Dirichlet(1; 0.01, 0.01, 0.01), 3000 seeds")
		zeros := 0
		for s := int64(0); s < 3000; s++ {
			rand.Seed(s)
			v, err := stats.Dirichlet(1, 0.01, 0.01, 0.01)
			if err != nil {
				c.Failf("Dirichlet:unexpected-error", "%v", err)
				return
			}
			if !checkVector(c, "Dirichlet", v, 3, 1, false, fmt.Sprintf("seed=%d alpha=0.01 x3", s)) {
				return
			}
			for _, x := range v {
				if x == 0 {
					zeros++
				}
			}
		}
		c.Add("witness:underflowed-entries-at-shape-0.01", zeros)
	}},
	{"weights-L3", func(c *mon.Case) {
		c.Input("BuildWeightsDirichlet / BuildWeightsGamma on a 3 column alignment, 2000 seeds")
		al := h.MkAlign(gen.Rows{{Name: "a", Seq: "ACG"}, {Name: "b", Seq: "A-G"}}, align.NUCLEOTIDS)
		for s := int64(0); s < 2000; s++ {
			rand.Seed(s)
			if !checkVector(c, "BuildWeightsDirichlet", dna.BuildWeightsDirichlet(al), 3, 3, true, fmt.Sprintf("L=3 seed=%d", s)) {
				return
			}
			rand.Seed(s)
			if !checkVector(c, "BuildWeightsGamma", dna.BuildWeightsGamma(al), 3, 3, true, fmt.Sprintf("L=3 seed=%d", s)) {
				return
			}
		}
	}},
	{"incgamma-documented-errors", func(c *mon.Case) {
		// function comment: "returns (-1) if in error"; x = 0 is 0
		c.Input("IncompleteGamma with x < 0 or alpha <= 0 returns -1; x = 0 returns 0")
		for _, t := range [][2]float64{{-1, 2}, {-1e-300, 0.5}, {1, 0}, {1, -1}, {3, -0.5}} {
			lg, _ := math.Lgamma(math.Abs(t[1]) + 1)
			if v := models.IncompleteGamma(t[0], t[1], lg); v != -1 {
				c.Failf("IncompleteGamma:error-not-reported", "IncompleteGamma(x=%v, alpha=%v) = %v, documented -1", t[0], t[1], v)
			}
		}
		for _, a := range []float64{0.01, 1, 2.5, 101} {
			lg, _ := math.Lgamma(a)
			if v := models.IncompleteGamma(0, a, lg); v != 0 {
				c.Failf("IncompleteGamma:nonzero-at-0", "IncompleteGamma(0, %v) = %v", a, v)
			}
		}
	}},
	{"incgamma-branch-boundaries", func(c *mon.Case) {
		c.Input("x = 1 and x = alpha exactly and one ulp around, both sides of the series / continued fraction switch")
		for _, a := range []float64{0.01, 0.5, below1, 1, above1, 1.5, 2, 3, 10, 50, 100, 101} {
			lg, _ := math.Lgamma(a)
			prev := 0.0
			for i, x := range []float64{math.Nextafter(1, 0), 1, math.Nextafter(1, 2), math.Nextafter(a, 0), a, math.Nextafter(a, 1000)} {
				v, ok := checkIncGamma(c, x, a, lg)
				if !ok {
					return
				}
				if i%3 != 0 && v < prev-incMonoTol {
					c.Failf("IncompleteGamma:decreasing", "alpha=%v: value drops from %.12g to %.12g at x=%v", a, prev, v, x)
				}
				prev = v
			}
		}
	}},
	{"incgamma-exponential", func(c *mon.Case) {
		// closed forms: P(1,x) = 1-e^-x, P(2,x) = 1-(1+x)e^-x
		c.Input("closed forms for alpha = 1 and 2")
		for i := 0; i <= 400; i++ {
			x := float64(i) * 0.125
			if v, e := models.IncompleteGamma(x, 1, 0), -math.Expm1(-x); math.Abs(v-e) > incSerTol {
				c.Failf("IncompleteGamma:differs-from-series", "IncompleteGamma(%v, 1) = %v, 1-exp(-x) = %v", x, v, e)
				return
			}
			if v, e := models.IncompleteGamma(x, 2, 0), 1-(1+x)*math.Exp(-x); math.Abs(v-e) > incSerTol {
				c.Failf("IncompleteGamma:differs-from-series", "IncompleteGamma(%v, 2) = %v, 1-(1+x)exp(-x) = %v", x, v, e)
				return
			}
		}
	}},
	{"dgamma-published", func(c *mon.Case) {
		// Yang (1994) / PAML documentation: alpha = 0.5, 4 categories
		c.Input("DiscreteGamma(0.5, 4) against the published 0.0334 0.2519 0.8203 2.8944; (1,4): 0.1369 0.4767 1.0000 2.3863")
		for _, t := range []struct {
			a float64
			r []float64
		}{{0.5, []float64{0.0334, 0.2519, 0.8203, 2.8944}}, {1, []float64{0.1369, 0.4767, 1.0000, 2.3863}}} {
			got := checkDiscreteGamma(c, t.a, 4)
			if got == nil {
				return
			}
			for i := range t.r {
				if math.Abs(got[i]-t.r[i]) > 6e-5 {
					c.Failf("DiscreteGamma:not-yang-categories", "DiscreteGamma(%v,4) = %v, published %v", t.a, got, t.r)
					return
				}
			}
		}
	}},
	{"dgamma-corners", func(c *mon.Case) {
		c.Input("DiscreteGamma at the corners of the parameter domain")
		for _, a := range []float64{0.01, 0.0101, 0.02, 0.5, below1, 1, above1, 2, 99, 100} {
			for _, k := range []int{2, 3, 12, 13, 31, 32} {
				if checkDiscreteGamma(c, a, k) == nil {
					return
				}
			}
		}
	}},
	{"rates-homogeneous", func(c *mon.Case) {
		c.Input("GenerateRates without gamma / with one category: all rates 1")
		for _, t := range []struct {
			g bool
			k int
		}{{false, 4}, {true, 1}, {true, 0}, {false, 0}} {
			rates, cats := models.GenerateRates(10, t.g, 0.5, t.k, true)
			if len(rates) != 10 || len(cats) != 10 {
				c.Failf("GenerateRates:length", "%d rates", len(rates))
				return
			}
			for i := range rates {
				if rates[i] != 1 || cats[i] != 0 {
					c.Failf("GenerateRates:homogeneous-not-1", "gamma=%v ncat=%d: rate %v category %d", t.g, t.k, rates[i], cats[i])
					return
				}
			}
		}
	}},
	{"gamma-scale", func(c *mon.Case) {
		// Gamma(alpha, beta) with the same seed is beta times Gamma(alpha, 1): beta is a scale (documented by the samplers' "x * beta")
		c.Input("stats.Gamma(alpha, beta) == beta * stats.Gamma(alpha, 1) under the same seed (up to rounding)")
		for _, a := range []float64{0.01, 0.3, below1, 1, above1, 2.5, 100} {
			for s := int64(0); s < 50; s++ {
				rand.Seed(s)
				x1 := stats.Gamma(a, 1)
				rand.Seed(s)
				x3 := stats.Gamma(a, 3)
				if !(x1 >= 0) || math.IsInf(x1, 0) || math.Abs(x3-3*x1) > 1e-12*math.Abs(x3) {
					c.Failf("Gamma:scale", "alpha=%v seed=%d: Gamma(alpha,1)=%v Gamma(alpha,3)=%v", a, s, x1, x3)
					return
				}
			}
		}
	}},
}

func runWitness(c *mon.Case) {
	w := witnesses[c.Idx%len(witnesses)]
	c.Count("witness:" + w.name)
	w.run(c)
	c.NonTrivial(w.name)
}

func main() {
	mon.CPUBudget = 10 * time.Second
	mon.SetNote("rule", strings.Join([]string{
		"weights: alignment length L (3, 4-10, 11-100, 101-2000) x math/rand seed: BuildWeightsDirichlet and BuildWeightsGamma return L finite weights > 0 summing to L (1e-9 relative), identical under the same seed, valid under the next seed",
		"dirichlet: parameter vector (3..50 values, sometimes up to 1000; classes all<1, all=1, all>1, within an ulp of 1, 0.01/100 extremes, all 0.01, mixed) x factor (1, n, other) x seed: Dirichlet and Dirichlet1 return n finite entries >= 0 summing to the factor, identical under the same seed; then an invalid vector (one alpha 0, -0, negative, -Inf at the first / last / an inner position; 0, 1 or 2 values; Dirichlet1 with nvalues <= 2) must give an error",
		"dist: 20000 draws of Gamma(shape,scale) / one Dirichlet, Dirichlet1, BuildWeightsDirichlet, BuildWeightsGamma coordinate / continuous rates, Kolmogorov-Smirnov distance to the documented law below the DKW bound (false alarm <= 1e-15 per test)",
		"dgamma: all 60 x 31 cells of (alpha on a log grid over [0.01,100]) x (2..32 categories), then random shapes incl. 1 +- ulp: k finite rates >= -1e-12, non-decreasing (1e-9), mean 1 (1e-9), equal to Yang's category means (or normalised medians) computed from the series within 1e-7 k, deterministic",
		"incgamma: shape a in [0.01,101] x 64 increasing x in [0,500] (uniform, around x=a, around x=1, log grid from 1e-300, random): value in [0,1], non-decreasing (1e-7), equal to the series sum_n e^-x x^(a+n)/Gamma(a+n+1) within 1e-6, 0 at x=0; both algorithm branches and their switch points counted",
		"rates: GenerateRates in discrete (rate == DiscreteGamma[category], category in range, every category drawn over >= 50k sites, replay), homogeneous (all 1) and continuous (finite >= 0) modes",
		"concurrent (-race build): 2..8 goroutines, each recomputing its own 3 (shape, category count) cells 10 rounds with DiscreteGamma, IncompleteGamma and GenerateRates at GOMAXPROCS 1..16: no race report, valid categories, bit-identical to the same calls made alone",
		"every case is non-trivial (a draw, a parameter cell or an x sequence); distinct = (sub-check, parameters, seed)", cliRule}, ";; "))
	mon.SetNote("assumptions", strings.Join([]string{
		"trusted base: math.Lgamma/Exp/Log (series oracle, bisection quantile of the category cut points) and, for the support tests only, gonum's Gamma/Beta CDF; gonum's incomplete gamma is cross-checked against the harness series at every evaluated point (sig harness:series-oracle); gonum's gamma QUANTILE is not used by the oracle (it is inaccurate for shapes near 0.01, which only moves goalign's lowest categories by < 1e-59)",
		"tolerances: sums 1e-9 relative; rates >= -1e-12 and non-decreasing up to 1e-9 (measured wobble < 1e-14); IncompleteGamma vs series 1e-6 (measured 1e-8), monotone up to 1e-7; rates vs Yang 1e-7 x ncat (measured 2.7e-7 at 31 categories); KS distance 0.0297 for 20000 draws (largest observed 0.014)",
		"Dirichlet entries may be exactly 0 (a Gamma(0.01) draw underflows with probability 6e-4); strict positivity is required for the bootstrap weights only, as stated",
		"a parameter vector of exactly 2 values may be refused or sampled (the error text says 'less than 2 values', the code refuses 2)",
		"NaN and +Inf count as invalid Dirichlet parameters (fixed witnesses only: on a tree that loops on them each case costs the 10 s CPU budget)",
		"stats.Gamma with an invalid shape/scale ends the process through io.ExitWithMessage (explicit error report at CLI level); not driven",
		"BuildWeights* on alignments shorter than 3 columns are outside the quantifier (Dirichlet refuses < 3 values and the error is dropped: nil weights; L=1 exits)",
		"the scale given to the gamma sampler by BuildWeightsGamma cancels in the normalisation: a wrong scale there is not observable and not a violation",
		"which algorithm serves shape exactly 1, or x exactly at the series/continued fraction switch, is not observable as long as the values are right",
		"continuous GenerateRates draws come from gonum's own stream (golang.org/x/exp/rand), not replayable through math/rand.Seed: range checks and the support test only",
		"documented categories: Yang (1994) mean variant; the median variant is accepted too", cliAssumptions}, ";; "))
	mon.SetNote("exhaustive_subspaces", "dgamma: all 1860 cells of the 60 point log grid of alpha over [0.01,100] x ncat 2..32 (DiscreteGamma is deterministic); witness: fixed list")
	mon.Floor("op:BuildWeightsDirichlet", 1000)
	mon.Floor("op:BuildWeightsGamma", 1000)
	mon.Floor("L:3", 100)
	mon.Floor("L:>100", 100)
	mon.Floor("op:Dirichlet", 1000)
	mon.Floor("op:Dirichlet1", 1000)
	for _, cl := range []string{"all<1", "all=1", "all>1", "near1", "extreme", "all0.01", "mixed"} {
		mon.Floor("alpha:"+cl, 200)
	}
	mon.Floor("factor:1", 200)
	mon.Floor("factor:n", 200)
	mon.Floor("invalid:alpha<=0", 500)
	mon.Floor("invalid:0-values", 50)
	mon.Floor("invalid:1-values", 50)
	mon.Floor("invalid:Dirichlet1-nvalues<=2", 100)
	for _, k := range []string{"Gamma", "Dirichlet", "Dirichlet1", "BuildWeightsDirichlet", "BuildWeightsGamma", "GenerateRates-continuous"} {
		mon.Floor("op:ks:"+k, 40)
	}
	mon.Floor("ks:Gamma:shape<1", 20)
	mon.Floor("ks:Gamma:shape=1", 5)
	mon.Floor("ks:Gamma:shape>1", 20)
	mon.Floor("dgamma:grid-cell", gridN*31)
	mon.Floor("dgamma:alpha=1", 50)
	mon.Floor("branch:series", 10000)
	mon.Floor("branch:continued-fraction", 10000)
	mon.Floor("boundary:x==a", 100)
	mon.Floor("boundary:x==1", 100)
	mon.Floor("boundary:x==0", 100)
	mon.Floor("op:GenerateRates:discrete", 500)
	mon.Floor("op:GenerateRates:homogeneous", 100)
	mon.Floor("op:GenerateRates:continuous", 100)
	mon.Floor("GenerateRates:all-categories-expected", 100)
	mon.Floor("concurrent:DiscreteGamma-calls", 4000)
	cliFloors()
	mon.Main("C20", []mon.Sub{
		{Name: "witness", Quick: len(witnesses), Thorough: len(witnesses), Run: runWitness},
		{Name: "weights", Quick: 40000, Thorough: 600000, Run: runWeights},
		{Name: "dirichlet", Quick: 120000, Thorough: 2500000, Run: runDirichlet},
		{Name: "dist", Quick: 1400, Thorough: 21000, Run: runDist},
		{Name: "dgamma", Quick: 8000, Thorough: 150000, Run: runDGamma},
		{Name: "incgamma", Quick: 40000, Thorough: 800000, Run: runIncGamma},
		{Name: "incgamma-tail", Quick: len(tailXs) * len(tailAs), Thorough: len(tailXs) * len(tailAs), Run: runIncGammaTail},
		{Name: "rates", Quick: 12000, Thorough: 250000, Run: runRates},
		{Name: "concurrent", Quick: 96, Thorough: 2400, Race: true, Run: runConcurrent},
		{Name: "cli", Quick: 160, Thorough: 1600, Serial: true, Run: runCli},
	})
}
