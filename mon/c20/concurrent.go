// concurrent sub-check of C20 (-race build): DiscreteGamma, IncompleteGamma and GenerateRates are functions of their
// arguments; callers in different goroutines (several data sets simulated at once) must each get valid categories.
// Every worker owns a list of (shape, category count) pairs whose categories were computed beforehand in a single
// goroutine (and checked there by the dgamma oracle); the workers then recompute them at the same time, many rounds.
// Shared scratch state inside the routines shows as a race report (the driver runs this sub-check in the -race
// binary), as invalid categories (negative, decreasing, not averaging to 1) or as categories other than those the
// same call returns alone.
package main

import (
	"fmt"
	"math"
	"runtime"
	"sync"

	"github.com/evolbioinfo/goalign/models"

	"verif/lib/mon"
)

type dgJob struct {
	alpha float64
	k     int
	want  []float64
	// incomplete gamma points of this shape
	xs  []float64
	lg  float64
	igs []float64
}

func runConcurrent(c *mon.Case) {
	r := c.R
	nw := r.PickInt([]int{2, 4, 8})
	old := runtime.GOMAXPROCS(r.PickInt([]int{1, 2, 4, 16}))
	defer runtime.GOMAXPROCS(old)
	jobs := make([][]*dgJob, nw)
	var descs []string
	for w := range jobs {
		for j := 0; j < 3; j++ {
			alpha, _ := genShape(r)
			k := r.Range(2, 32)
			want := checkDiscreteGamma(c, alpha, k)
			if want == nil {
				return // reported by the single caller oracle
			}
			lg, _ := math.Lgamma(alpha)
			jb := &dgJob{alpha: alpha, k: k, want: want, lg: lg}
			for i := 0; i < 6; i++ {
				x := r.Float() * 3 * alpha
				jb.xs = append(jb.xs, x)
				jb.igs = append(jb.igs, models.IncompleteGamma(x, alpha, jb.lg))
			}
			jobs[w] = append(jobs[w], jb)
			descs = append(descs, fmt.Sprintf("w%d:alpha=%v,ncat=%d", w, alpha, k))
		}
	}
	c.Input(map[string]interface{}{"workers": nw, "jobs": descs})
	rounds := 10
	var wg sync.WaitGroup
	var mu sync.Mutex
	sig, bad := "", ""
	fail := func(s, format string, a ...interface{}) {
		mu.Lock()
		if bad == "" {
			sig, bad = s, fmt.Sprintf(format, a...)
		}
		mu.Unlock()
	}
	for w := range jobs {
		wg.Add(1)
		go func(w int) {
			defer wg.Done()
			for k := 0; k < rounds; k++ {
				for _, jb := range jobs[w] {
					ctx := fmt.Sprintf("worker %d of %d, round %d: DiscreteGamma(alpha=%v, ncat=%d)", w, nw, k, jb.alpha, jb.k)
					got := models.DiscreteGamma(jb.alpha, jb.k)
					if len(got) != jb.k {
						fail("concurrent:DiscreteGamma:length", "%s returned %d rates", ctx, len(got))
						return
					}
					sum := 0.0
					for i, x := range got {
						if math.IsNaN(x) || math.IsInf(x, 0) || x < -negTol {
							fail("concurrent:DiscreteGamma:negative-or-not-finite", "%s: rate %d is %v while other goroutines compute their own categories; rates=%v; alone=%v", ctx, i, x, got, jb.want)
							return
						}
						if i > 0 && x < got[i-1]-orderTol {
							fail("concurrent:DiscreteGamma:decreasing", "%s: rate %d = %v < rate %d = %v while other goroutines compute their own categories; rates=%v; alone=%v", ctx, i, x, i-1, got[i-1], got, jb.want)
							return
						}
						sum += x
					}
					if math.Abs(sum/float64(jb.k)-1) > sumTol {
						fail("concurrent:DiscreteGamma:mean", "%s: rates average to %.17g while other goroutines compute their own categories; rates=%v; alone=%v", ctx, sum/float64(jb.k), got, jb.want)
						return
					}
					if !sameBits(got, jb.want) {
						fail("concurrent:DiscreteGamma:differs-from-the-same-call-alone", "%s: %v while other goroutines compute their own categories, %v alone", ctx, got, jb.want)
						return
					}
					for i, x := range jb.xs {
						if g := models.IncompleteGamma(x, jb.alpha, jb.lg); math.Float64bits(g) != math.Float64bits(jb.igs[i]) {
							fail("concurrent:IncompleteGamma:differs-from-the-same-call-alone", "worker %d round %d: IncompleteGamma(x=%v, a=%v)=%v while other goroutines call it, %v alone", w, k, x, jb.alpha, g, jb.igs[i])
							return
						}
					}
					if k%4 == 0 {
						rates, cats := models.GenerateRates(40, true, jb.alpha, jb.k, true)
						if len(rates) != 40 || len(cats) != 40 {
							fail("concurrent:GenerateRates:length", "worker %d: %d rates, %d categories for 40 sites", w, len(rates), len(cats))
							return
						}
						for i := range rates {
							if cats[i] < 0 || cats[i] >= jb.k || math.Float64bits(rates[i]) != math.Float64bits(jb.want[cats[i]]) {
								fail("concurrent:GenerateRates:rate-not-of-its-category", "worker %d round %d: GenerateRates(alpha=%v, ncat=%d) site %d: rate %v, category %d; categories alone=%v", w, k, jb.alpha, jb.k, i, rates[i], cats[i], jb.want)
								return
							}
						}
					}
				}
			}
		}(w)
	}
	wg.Wait()
	if bad != "" {
		c.Failf(sig, "%s", bad)
		return
	}
	c.Count(fmt.Sprintf("concurrent:workers:%d", nw))
	c.Add("concurrent:DiscreteGamma-calls", nw*rounds*3)
	c.NonTrivial(fmt.Sprint(descs))
}
