// Reference side of the C20 monitor: the defining series of the incomplete gamma ratio,
// Yang's (1994) discrete-gamma categories, and the Kolmogorov-Smirnov distance with its
// Dvoretzky-Kiefer-Wolfowitz bound. Nothing here is derived from goalign's code.
package main

import (
	"math"
	"sort"
)

// seriesP evaluates the regularised lower incomplete gamma ratio P(a,x) by its defining series
//
//	P(a,x) = sum_{n>=0} e^{-x} x^{a+n} / Gamma(a+n+1)
//
// All terms are positive (no cancellation). The largest term (n0 = floor(x-a), or 0) is anchored in
// log space with math.Lgamma, so nothing overflows; its neighbours follow from the exact ratio
// t_{n+1}/t_n = x/(a+n+1). The sums run until a term drops below 1e-20 of the running sum on the
// decreasing side of the mode (the tail is then below 1e-17 of the sum for x <= 1000).
func seriesP(x, a float64) float64 {
	if x <= 0 {
		return 0
	}
	n0 := math.Floor(x - a)
	if n0 < 0 {
		n0 = 0
	}
	lg, _ := math.Lgamma(a + n0 + 1)
	t0 := math.Exp(-x + (a+n0)*math.Log(x) - lg)
	sum := t0
	t := t0
	for n := n0; ; n++ {
		t *= x / (a + n + 1)
		sum += t
		if t <= 1e-20*sum || t == 0 {
			break
		}
	}
	t = t0
	for n := n0; n > 0; n-- {
		t *= (a + n) / x
		sum += t
		if t <= 1e-20*sum || t == 0 {
			break
		}
	}
	return sum
}

// gammaQuantile solves P(a, y) = p for y (the p-quantile of Gamma(shape a, scale 1)) by bisection on
// log y over [1e-320, 1e5] using seriesP only: 1 ulp-ish accuracy in y is not needed, the bracket is
// halved until it is narrower than 1e-15 relative.
func gammaQuantile(a, p float64) float64 {
	lo, hi := math.Log(1e-320), math.Log(1e5)
	for i := 0; i < 200 && hi-lo > 1e-15*math.Max(1, math.Abs(lo)); i++ {
		mid := (lo + hi) / 2
		if seriesP(math.Exp(mid), a) < p {
			lo = mid
		} else {
			hi = mid
		}
	}
	return math.Exp((lo + hi) / 2)
}

// yangRates returns the k category rates of the discrete gamma model of Yang (1994, J Mol Evol 39:306)
// for shape alpha and mean 1: equal-probability categories cut at the quantiles y_i of Gamma(alpha, 1)
// (rate scaling cancels); "mean" variant r_i = k (P(alpha+1, y_i) - P(alpha+1, y_{i-1})), "median" variant
// r_i proportional to the quantile of the category midpoint, rescaled to average 1.
// Quantiles by bisection on seriesP, ratios by seriesP: no code of goalign or gonum is involved.
func yangRates(alpha float64, k int) (mean, median []float64) {
	mean = make([]float64, k)
	median = make([]float64, k)
	prev := 0.0
	tot := 0.0
	for i := 0; i < k; i++ {
		cur := 1.0
		if i < k-1 {
			cur = seriesP(gammaQuantile(alpha, float64(i+1)/float64(k)), alpha+1)
		}
		mean[i] = (cur - prev) * float64(k)
		prev = cur
		median[i] = gammaQuantile(alpha, (2*float64(i)+1)/(2*float64(k)))
		tot += median[i]
	}
	for i := range median {
		median[i] *= float64(k) / tot
	}
	return
}

// ksDistance returns sup_x |F_n(x) - F(x)| for the sample xs (sorted in place), ties handled exactly.
func ksDistance(xs []float64, cdf func(float64) float64) float64 {
	sort.Float64s(xs)
	n := float64(len(xs))
	d := 0.0
	for i := 0; i < len(xs); {
		j := i
		for j+1 < len(xs) && xs[j+1] == xs[i] {
			j++
		}
		f := cdf(xs[i])
		if v := f - float64(i)/n; v > d { // just below the jump
			d = v
		}
		if v := float64(j+1)/n - f; v > d { // at the jump
			d = v
		}
		i = j + 1
	}
	return d
}

// dkwEps is the distance that an i.i.d. sample of size n from F exceeds with probability <= p
// (Dvoretzky-Kiefer-Wolfowitz with Massart's constant: P(D > eps) <= 2 exp(-2 n eps^2), valid for every n).
func dkwEps(n int, p float64) float64 {
	return math.Sqrt(math.Log(2/p) / (2 * float64(n)))
}
