// concurrent sub-check of C09 (-race build): aligner objects are single use and own their sequences; several of
// them running in different goroutines (goalign phase aligns every sequence against every reference from a pool
// of workers) must give what each gives alone. Pairs of very different sizes are mixed so that the fills overlap.
package main

import (
	"fmt"
	"strings"

	"verif/lib/mon"
)

func runConcurrent(c *mon.Case) {
	r := c.R
	nw := r.PickInt([]int{2, 3, 4, 8})
	var jobs []mon.Job
	var descs []string
	for i := 0; i < nw; i++ {
		protein := r.Chance(0.3)
		alpha, sc := ntLetters, scheme{Matrix: "dnafull", Open: -10, Extend: -0.5}
		if protein {
			alpha, sc = aaLetters, scheme{Matrix: "blosum62", Open: -10, Extend: -0.5}
		} else if r.Chance(0.4) {
			sc = scheme{Match: 1, Mismatch: -1, Open: -3, Extend: -0.5}
		}
		var a, b string
		switch r.Intn(4) {
		case 0: // one long low-complexity pair: a long fill that keeps overwriting every cell of its scratch rows
			n := r.Range(300, 900)
			a, b = strings.Repeat(string(alpha[0]), n), strings.Repeat(string(alpha[0]), n-r.Intn(20))
		case 1: // common prefix, then unrelated tails: the optimum is the prefix, any leaked gap score shows
			p := r.Str(r.Range(4, 30), alpha)
			n := r.Range(50, 600)
			a, b = p+strings.Repeat(string(alpha[1]), n), p+strings.Repeat(string(alpha[2]), n)
		default:
			a = r.Str(r.Range(20, 400), alpha)
			b = related(r, a, alpha)
		}
		descs = append(descs, fmt.Sprintf("%d x %d %s", len(a), len(b), sc.Matrix))
		jobs = append(jobs, func() string {
			res := runAligner(a, b, sc)
			if res.err != nil {
				return "error: " + res.err.Error()
			}
			return fmt.Sprintf("score=%v starts=%d,%d ends=%d,%d counts=%d/%d/%d length=%d\n%s\n%s", res.max, res.s1, res.s2, res.e1, res.e2, res.nm, res.nmm, res.ng, res.L, res.row1, res.row2)
		})
	}
	c.Input(map[string]interface{}{"pairs": descs})
	rounds := 6
	diff, calls := mon.Concurrently(jobs, rounds, r.PickInt([]int{1, 2, 4, 16}))
	if diff != "" {
		c.Failf("concurrent:aligners-not-independent", "%v\n%s", descs, diff)
		return
	}
	c.Add("concurrent:alignments", calls)
	c.Count(fmt.Sprintf("concurrent:workers:%d", nw))
	c.NonTrivial(fmt.Sprint(descs), fmt.Sprint(c.Idx))
}
