// Reference side of the C09 monitor: the scoring of a given pairwise alignment, an
// independent Gotoh local dynamic program, a brute-force enumerator of all local
// alignments of tiny inputs, and the published substitution tables (typed in their
// distribution layout; compared with the tables goalign was built with).
package main

import (
	"strings"
)

// scheme is a scoring scheme as the aligner is configured with it.
type scheme struct {
	Matrix   string  `json:"matrix"` // "", "dnafull" or "blosum62" ("" = match/mismatch)
	Match    float64 `json:"match"`
	Mismatch float64 `json:"mismatch"`
	Open     float64 `json:"open"`   // score of the first gap column of a run
	Extend   float64 `json:"extend"` // score of every further gap column of the run
	Inexact  bool    `json:"not_exactly_representable,omitempty"`
}

// EDNAFULL / NUC.4.4 as distributed with EMBOSS (goalign adds a U column and row equal to T).
const ednafullTxt = `
    A   T   G   C   S   W   R   Y   K   M   B   V   H   D   N
A   5  -4  -4  -4  -4   1   1  -4  -4   1  -4  -1  -1  -1  -2
T  -4   5  -4  -4  -4   1  -4   1   1  -4  -1  -4  -1  -1  -2
G  -4  -4   5  -4   1  -4   1  -4   1  -4  -1  -1  -4  -1  -2
C  -4  -4  -4   5   1  -4  -4   1  -4   1  -1  -1  -1  -4  -2
S  -4  -4   1   1  -1  -4  -2  -2  -2  -2  -1  -1  -3  -3  -1
W   1   1  -4  -4  -4  -1  -2  -2  -2  -2  -3  -3  -1  -1  -1
R   1  -4   1  -4  -2  -2  -1  -4  -2  -2  -3  -1  -3  -1  -1
Y  -4   1  -4   1  -2  -2  -4  -1  -2  -2  -1  -3  -1  -3  -1
K  -4   1   1  -4  -2  -2  -2  -2  -1  -4  -1  -3  -3  -1  -1
M   1  -4  -4   1  -2  -2  -2  -2  -4  -1  -3  -1  -1  -3  -1
B  -4  -1  -1  -1  -1  -3  -3  -1  -1  -3  -1  -2  -2  -2  -1
V  -1  -4  -1  -1  -1  -3  -1  -3  -3  -1  -2  -1  -2  -2  -1
H  -1  -1  -4  -1  -3  -1  -3  -1  -3  -1  -2  -2  -1  -2  -1
D  -1  -1  -1  -4  -3  -1  -1  -3  -1  -3  -2  -2  -2  -1  -1
N  -2  -2  -2  -2  -1  -1  -1  -1  -1  -1  -1  -1  -1  -1  -1
`

// BLOSUM62 as distributed by NCBI / EMBOSS (EBLOSUM62).
const blosum62Txt = `
   A  R  N  D  C  Q  E  G  H  I  L  K  M  F  P  S  T  W  Y  V  B  Z  X  *
A  4 -1 -2 -2  0 -1 -1  0 -2 -1 -1 -1 -1 -2 -1  1  0 -3 -2  0 -2 -1  0 -4
R -1  5  0 -2 -3  1  0 -2  0 -3 -2  2 -1 -3 -2 -1 -1 -3 -2 -3 -1  0 -1 -4
N -2  0  6  1 -3  0  0  0  1 -3 -3  0 -2 -3 -2  1  0 -4 -2 -3  3  0 -1 -4
D -2 -2  1  6 -3  0  2 -1 -1 -3 -4 -1 -3 -3 -1  0 -1 -4 -3 -3  4  1 -1 -4
C  0 -3 -3 -3  9 -3 -4 -3 -3 -1 -1 -3 -1 -2 -3 -1 -1 -2 -2 -1 -3 -3 -2 -4
Q -1  1  0  0 -3  5  2 -2  0 -3 -2  1  0 -3 -1  0 -1 -2 -1 -2  0  3 -1 -4
E -1  0  0  2 -4  2  5 -2  0 -3 -3  1 -2 -3 -1  0 -1 -3 -2 -2  1  4 -1 -4
G  0 -2  0 -1 -3 -2 -2  6 -2 -4 -4 -2 -3 -3 -2  0 -2 -2 -3 -3 -1 -2 -1 -4
H -2  0  1 -1 -3  0  0 -2  8 -3 -3 -1 -2 -1 -2 -1 -2 -2  2 -3  0  0 -1 -4
I -1 -3 -3 -3 -1 -3 -3 -4 -3  4  2 -3  1  0 -3 -2 -1 -3 -1  3 -3 -3 -1 -4
L -1 -2 -3 -4 -1 -2 -3 -4 -3  2  4 -2  2  0 -3 -2 -1 -2 -1  1 -4 -3 -1 -4
K -1  2  0 -1 -3  1  1 -2 -1 -3 -2  5 -1 -3 -1  0 -1 -3 -2 -2  0  1 -1 -4
M -1 -1 -2 -3 -1  0 -2 -3 -2  1  2 -1  5  0 -2 -1 -1 -1 -1  1 -3 -1 -1 -4
F -2 -3 -3 -3 -2 -3 -3 -3 -1  0  0 -3  0  6 -4 -2 -2  1  3 -1 -3 -3 -1 -4
P -1 -2 -2 -1 -3 -1 -1 -2 -2 -3 -3 -1 -2 -4  7 -1 -1 -4 -3 -2 -2 -1 -2 -4
S  1 -1  1  0 -1  0  0  0 -1 -2 -2  0 -1 -2 -1  4  1 -3 -2 -2  0  0  0 -4
T  0 -1  0 -1 -1 -1 -1 -2 -2 -1 -1 -1 -1 -2 -1  1  5 -2 -2  0 -1 -1  0 -4
W -3 -3 -4 -4 -2 -2 -3 -2 -2 -3 -2 -3 -1  1 -4 -3 -2 11  2 -3 -4 -3 -2 -4
Y -2 -2 -2 -3 -2 -1 -2 -3  2 -1 -1 -2 -1  3 -3 -2 -2  2  7 -1 -3 -2 -1 -4
V  0 -3 -3 -3 -1 -2 -2 -3 -3  3  1 -2  1 -1 -2 -2  0 -3 -1  4 -3 -2 -1 -4
B -2 -1  3  4 -3  0  1 -1  0 -3 -4  0 -3 -3 -2  0 -1 -4 -3 -3  4  1 -1 -4
Z -1  0  0  1 -3  3  4 -2  0 -3 -3  1 -1 -3 -1  0 -1 -3 -2 -2  1  4 -1 -4
X  0 -1 -1 -1 -2 -1 -1 -1 -1 -1 -1 -1 -1 -1 -2  0  0 -2 -1 -1 -1 -1 -1 -4
*  -4 -4 -4 -4 -4 -4 -4 -4 -4 -4 -4 -4 -4 -4 -4 -4 -4 -4 -4 -4 -4 -4 -4  1
`

// table maps a pair of upper-case letters to its published score.
type table map[[2]byte]float64

func parseTable(txt string) table {
	t := table{}
	var cols []byte
	for _, l := range strings.Split(strings.TrimSpace(txt), "\n") {
		f := strings.Fields(l)
		if cols == nil {
			for _, c := range f {
				cols = append(cols, c[0])
			}
			continue
		}
		r := f[0][0]
		for k, v := range f[1:] {
			t[[2]byte{r, cols[k]}] = atof(v)
		}
	}
	return t
}

func atof(s string) float64 {
	neg := false
	if s[0] == '-' {
		neg = true
		s = s[1:]
	}
	v := 0.0
	for _, c := range s {
		v = v*10 + float64(c-'0')
	}
	if neg {
		return -v
	}
	return v
}

var pubDNA = func() table {
	t := parseTable(ednafullTxt)
	// goalign's documented additions: U scores like T, X like N
	add := func(n, like byte) {
		letters := []byte("ATGCSWRYKMBVHDN")
		for _, c := range letters {
			t[[2]byte{n, c}] = t[[2]byte{like, c}]
			t[[2]byte{c, n}] = t[[2]byte{c, like}]
		}
	}
	add('U', 'T')
	t[[2]byte{'U', 'U'}] = t[[2]byte{'T', 'T'}]
	return t
}()

var pubProt = parseTable(blosum62Txt)

func upper(c byte) byte {
	if c >= 'a' && c <= 'z' {
		return c - 32
	}
	return c
}

// scorer gives the score of aligning residue a with residue b under a scheme,
// through the table goalign was BUILT with (mat/pos, from the verif hook) when a
// matrix is configured: "the configured scheme". The published tables above are
// compared with those in the separate `tables` sub-check.
type scorer struct {
	sc  scheme
	mat [][]float64
	pos map[uint8]int
}

func (s *scorer) sub(a, b byte) float64 {
	if s.sc.Matrix == "" {
		if a == b {
			return s.sc.Match
		}
		return s.sc.Mismatch
	}
	return s.mat[s.pos[upper(a)]][s.pos[upper(b)]]
}

// scoreAlignment scores two gapped rows of equal length: substitution score per
// residue pair, open for the first column of a gap run in one row, extend for each
// following column of the same run (a gap run in the other row is a new run).
func (s *scorer) scoreAlignment(r1, r2 []byte) float64 {
	tot := 0.0
	prev := 0 // 0 none/diag, 1 gap in r1, 2 gap in r2
	for k := range r1 {
		switch {
		case r1[k] == '-':
			if prev == 1 {
				tot += s.sc.Extend
			} else {
				tot += s.sc.Open
			}
			prev = 1
		case r2[k] == '-':
			if prev == 2 {
				tot += s.sc.Extend
			} else {
				tot += s.sc.Open
			}
			prev = 2
		default:
			tot += s.sub(r1[k], r2[k])
			prev = 0
		}
	}
	return tot
}

const negInf = -1e300

// gotoh returns the optimal local alignment score (>= 0) with affine gaps by the
// classical three-matrix recurrence (Gotoh 1982), two rolling rows.
func (s *scorer) gotoh(a, b []byte) float64 {
	n, m := len(a), len(b)
	H := make([]float64, m+1)
	F := make([]float64, m+1) // gap in b's row ending at (i,j): consumes a[i]
	for j := range F {
		F[j] = negInf
	}
	best := 0.0
	for i := 1; i <= n; i++ {
		diag := H[0]
		H[0] = 0
		E := negInf // gap in a's row ending at (i,j): consumes b[j]
		for j := 1; j <= m; j++ {
			up := H[j]
			// F from the cell above
			f := up + s.sc.Open
			if F[j]+s.sc.Extend > f {
				f = F[j] + s.sc.Extend
			}
			F[j] = f
			e := H[j-1] + s.sc.Open
			if E+s.sc.Extend > e {
				e = E + s.sc.Extend
			}
			E = e
			v := diag + s.sub(a[i-1], b[j-1])
			if e > v {
				v = e
			}
			if f > v {
				v = f
			}
			if v < 0 {
				v = 0
			}
			diag = up
			H[j] = v
			if v > best {
				best = v
			}
		}
	}
	return best
}

// brute enumerates every local alignment (every pair of start points, every
// sequence of diagonal / gap steps) and returns the best score (>= 0: the empty
// alignment). Exponential; for inputs of length <= 5.
func (s *scorer) brute(a, b []byte) float64 {
	best := 0.0
	var rec func(i, j, prev int, sc float64)
	rec = func(i, j, prev int, sc float64) {
		if sc > best {
			best = sc
		}
		if i < len(a) && j < len(b) {
			rec(i+1, j+1, 0, sc+s.sub(a[i], b[j]))
		}
		if i < len(a) {
			g := s.sc.Open
			if prev == 2 {
				g = s.sc.Extend
			}
			rec(i+1, j, 2, sc+g)
		}
		if j < len(b) {
			g := s.sc.Open
			if prev == 1 {
				g = s.sc.Extend
			}
			rec(i, j+1, 1, sc+g)
		}
	}
	for i := 0; i <= len(a); i++ {
		for j := 0; j <= len(b); j++ {
			rec(i, j, 0, 0)
		}
	}
	return best
}
