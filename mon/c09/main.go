// C09 monitor: the pairwise local aligner (align.NewPwAligner, ALIGN_ALGO_SW) against
// three independent oracles: a scorer of the returned alignment, a Gotoh local DP,
// and brute-force enumeration of all local alignments of tiny inputs.
package main

import (
	"fmt"
	"math"
	"strings"

	"github.com/evolbioinfo/goalign/align"

	"verif/lib/gen"
	"verif/lib/mon"
)

// all scores are dyadic rationals (multiples of 1/4 in a small range): float arithmetic
// is exact and equality of scores is meaningful.
var exhSchemes = []scheme{
	{Matrix: "", Match: 1, Mismatch: -1, Open: -10, Extend: -0.5},      // goalign's defaults for gaps: gaps never pay on tiny inputs
	{Matrix: "", Match: 2, Mismatch: -1, Open: -2, Extend: -0.5},       // gaps pay
	{Matrix: "", Match: 4, Mismatch: -1, Open: -2, Extend: -0.5},       // open > -match: gaps in the first row / column pay (defect #21 of DESIGN.md)
	{Matrix: "", Match: 1, Mismatch: -1, Open: -1, Extend: -1},         // linear gaps
	{Matrix: "", Match: 5, Mismatch: -4, Open: -3, Extend: -0.25},      // cheap extension
	{Matrix: "", Match: 3, Mismatch: -2, Open: -1.5, Extend: -1.5},     // linear, fractional
	{Matrix: "", Match: 8, Mismatch: -0.25, Open: -0.5, Extend: -0.25}, // everything is cheap: long alignments
	{Matrix: "dnafull", Match: 0, Mismatch: 0, Open: -10, Extend: -0.5},
	{Matrix: "dnafull", Match: 0, Mismatch: 0, Open: -4, Extend: -1},
	{Matrix: "dnafull", Match: 0, Mismatch: 0, Open: -1, Extend: -0.25},
}

// further exhaustive sub-spaces over letters whose scores under the matrices differ on the diagonal
// (a match that scores less than an earlier one: the running gap of the first row / column matters)
type exhSet struct {
	letters string
	schemes []scheme
	strs    []string
}

var exhSets = []exhSet{
	{"AWT", []scheme{{Matrix: "dnafull", Match: 0, Mismatch: 0, Open: -4.25, Extend: -0.25}, {Matrix: "dnafull", Match: 0, Mismatch: 0, Open: -6, Extend: -0.25}, {Matrix: "dnafull", Match: 0, Mismatch: 0, Open: -2, Extend: -1}, {Matrix: "dnafull", Match: 0, Mismatch: 0, Open: -4.5, Extend: -0.5}}, stringsOver("AWT", 4)},
	{"EZP", []scheme{{Matrix: "blosum62", Match: 0, Mismatch: 0, Open: -1.25, Extend: -0.25}, {Matrix: "blosum62", Match: 0, Mismatch: 0, Open: -10, Extend: -0.5}, {Matrix: "blosum62", Match: 0, Mismatch: 0, Open: -4, Extend: -0.5}, {Matrix: "blosum62", Match: 0, Mismatch: 0, Open: -2, Extend: -1}}, stringsOver("EZP", 4)},
	{"EQLF", []scheme{{Matrix: "blosum62", Match: 0, Mismatch: 0, Open: -3.25, Extend: -0.25}, {Matrix: "blosum62", Match: 0, Mismatch: 0, Open: -1.25, Extend: -0.25}}, stringsOver("EQLF", 4)},
}

func stringsOver(letters string, maxLen int) []string {
	var out []string
	var rec func(p string, n int)
	rec = func(p string, n int) {
		if n == 0 {
			out = append(out, p)
			return
		}
		for _, c := range letters {
			rec(p+string(c), n-1)
		}
	}
	for n := 1; n <= maxLen; n++ {
		rec("", n)
	}
	return out
}

func nExhMatrixCases() int {
	n := 0
	for _, e := range exhSets {
		n += len(e.schemes) * len(e.strs)
	}
	return n
}

func runExhaustiveMatrix(c *mon.Case) {
	idx := c.Idx
	for si, e := range exhSets {
		n := len(e.schemes) * len(e.strs)
		if idx >= n {
			idx -= n
			continue
		}
		sc := e.schemes[idx/len(e.strs)]
		a := e.strs[idx%len(e.strs)]
		c.Input(map[string]interface{}{"s1": a, "s2": fmt.Sprintf("every string over {%s} of length 1..4 (%d)", e.letters, len(e.strs)), "scheme": sc})
		for _, b := range e.strs {
			opt, r := checkPair(c, a, b, sc, true)
			classify(c, a, b, sc, opt, r)
			c.Count("exhaustive-matrix-pairs")
		}
		c.Count(fmt.Sprintf("exhaustive-matrix-set:%d", si))
		return
	}
}

var exhStrings = func() []string {
	var out []string
	var rec func(p string, n int)
	rec = func(p string, n int) {
		if n == 0 {
			out = append(out, p)
			return
		}
		for _, c := range "ACG" {
			rec(p+string(c), n-1)
		}
	}
	for n := 1; n <= 4; n++ {
		rec("", n)
	}
	return out
}()

type result struct {
	err            error
	row1, row2     []byte
	s1, s2, e1, e2 int
	max            float64
	nm, nmm, ng, L int
	al             align.Alignment
}

// runAligner configures one (single-use) aligner object and runs it.
func runAligner(a, b string, sc scheme) result {
	q1 := align.NewSequence("seq1", []uint8(a), "")
	q2 := align.NewSequence("seq2", []uint8(b), "")
	pw := align.NewPwAligner(q1, q2, align.ALIGN_ALGO_SW)
	if sc.Matrix == "" {
		pw.SetScore(sc.Match, sc.Mismatch)
	}
	pw.SetGapOpenScore(sc.Open)
	pw.SetGapExtendScore(sc.Extend)
	var r result
	r.al, r.err = pw.Alignment()
	if r.err != nil {
		return r
	}
	r.row1, r.row2 = pw.Seq1Ali(), pw.Seq2Ali()
	r.s1, r.s2 = pw.AlignStarts()
	r.e1, r.e2 = pw.AlignEnds()
	r.max = pw.MaxScore()
	r.nm, r.nmm, r.ng, r.L = pw.NbMatches(), pw.NbMisMatches(), pw.NbGaps(), pw.Length()
	if string(q1.SequenceChar()) != a || string(q2.SequenceChar()) != b || q1.Name() != "seq1" || q2.Name() != "seq2" {
		r.err = fmt.Errorf("INPUT-MODIFIED: %q %q became %q %q", a, b, q1.Sequence(), q2.Sequence())
	}
	return r
}

func strip(b []byte) string { return strings.ReplaceAll(string(b), "-", "") }

// checkPair runs the aligner on (a,b) under sc and applies every oracle. useBrute adds the
// exhaustive enumeration. Returns the optimum and whether the returned alignment has a gap.
func checkPair(c *mon.Case, a, b string, sc scheme, useBrute bool) (opt float64, r result) {
	tag := sc.Matrix
	if tag == "" {
		tag = "matchmismatch"
	}
	fail := func(sig, format string, x ...interface{}) {
		c.Failf(tag+":"+sig, "s1=%q s2=%q scheme=%+v\n%s", a, b, sc, fmt.Sprintf(format, x...))
	}
	s := &scorer{sc: sc}
	if sc.Matrix != "" {
		s.mat, s.pos = align.VerifSubstMatrix(sc.Matrix == "blosum62")
	}
	r = runAligner(a, b, sc)
	if r.err != nil {
		if strings.HasPrefix(r.err.Error(), "INPUT-MODIFIED") {
			fail("input-modified", "%v", r.err)
		} else {
			fail("unexpected-error", "Alignment(): %v", r.err)
		}
		return
	}
	opt = s.gotoh([]byte(a), []byte(b))
	if useBrute {
		if bf := s.brute([]byte(a), []byte(b)); bf != opt {
			// the two oracles disagree: a harness bug, never blamed on goalign
			panic(fmt.Sprintf("harness: Gotoh %v != brute force %v for %q %q %+v", opt, bf, a, b, sc))
		}
		c.Count("brute-force-agreed-with-gotoh")
	}
	desc := func() string {
		return fmt.Sprintf("returned rows:\n  %s\n  %s\nstarts=(%d,%d) ends=(%d,%d) MaxScore=%v matches=%d mismatches=%d gaps=%d Length=%d; optimum (Gotoh)=%v",
			r.row1, r.row2, r.s1, r.s2, r.e1, r.e2, r.max, r.nm, r.nmm, r.ng, r.L, opt)
	}
	// structure
	if len(r.row1) != len(r.row2) {
		fail("rows-unequal-length", "%s", desc())
		return
	}
	if len(r.row1) == 0 {
		fail("empty-alignment", "%s", desc())
		return
	}
	ng, nm, nmm, nmFold := 0, 0, 0, 0
	for k := range r.row1 {
		g1, g2 := r.row1[k] == '-', r.row2[k] == '-'
		switch {
		case g1 && g2:
			fail("all-gap-column", "column %d; %s", k, desc())
			return
		case g1 || g2:
			ng++
		case r.row1[k] == r.row2[k]:
			nm++
			nmFold++
		default:
			nmm++
			if upper(r.row1[k]) == upper(r.row2[k]) {
				nmFold++
			}
		}
	}
	if r.s1 < 0 || r.s2 < 0 || r.e1 >= len(a) || r.e2 >= len(b) || r.s1 > r.e1+1 || r.s2 > r.e2+1 {
		fail("positions-out-of-range", "%s", desc())
		return
	}
	if strip(r.row1) != a[r.s1:r.e1+1] || strip(r.row2) != b[r.s2:r.e2+1] {
		fail("rows-are-not-the-reported-substrings", "s1[%d..%d]=%q s2[%d..%d]=%q; %s", r.s1, r.e1, a[r.s1:r.e1+1], r.s2, r.e2, b[r.s2:r.e2+1], desc())
		return
	}
	if r.nm+r.nmm+r.ng != r.L || r.L != len(r.row1) {
		fail("counts-do-not-add-up", "%s", desc())
		return
	}
	// identical residues are matches; the statement does not say whether 'a' facing 'A' is one: both counts accepted
	if r.ng != ng || !((r.nm == nm && r.nmm == nmm) || (r.nm == nmFold && r.nmm == nm+nmm-nmFold)) {
		fail("counts-wrong", "columns hold %d identical pairs, %d different pairs, %d gap columns; %s", nm, nmm, ng, desc())
		return
	}
	// the Alignment object carries the same two rows under the sequences' names
	if r.al == nil || r.al.NbSequences() != 2 {
		fail("alignment-object", "Alignment() returned %v rows; %s", r.al, desc())
		return
	}
	q1, ok1 := r.al.GetSequence("seq1")
	q2, ok2 := r.al.GetSequence("seq2")
	if !ok1 || !ok2 || q1 != string(r.row1) || q2 != string(r.row2) || r.al.Length() != len(r.row1) {
		fail("alignment-object", "Alignment() rows %q %q differ from Seq1Ali/Seq2Ali; %s", q1, q2, desc())
		return
	}
	// score
	if opt > 0 {
		got := s.scoreAlignment(r.row1, r.row2)
		// dyadic schemes: exact; schemes with scores such as -0.6 (not representable): equal up to the rounding of a
		// few hundred additions
		same := func(x, y float64) bool {
			if !sc.Inexact {
				return x == y
			}
			return math.Abs(x-y) <= 1e-7*(1+math.Abs(x)+math.Abs(y))
		}
		if !same(got, r.max) {
			fail("reported-score-is-not-the-score-of-the-alignment", "returned alignment scores %v; %s", got, desc())
			return
		}
		if !same(r.max, opt) {
			fail("not-optimal", "returned alignment scores %v; %s", got, desc())
			return
		}
	} else {
		c.Count("no-positive-local-alignment")
	}
	return
}

func classify(c *mon.Case, a, b string, sc scheme, opt float64, r result) {
	if opt <= 0 || r.err != nil {
		return
	}
	hasGap := r.ng > 0
	border := r.s1 == 0 || r.s2 == 0
	if hasGap {
		c.Count("alignment-with-gap")
	}
	if border {
		c.Count("alignment-starting-in-first-row-or-column")
	}
	if r.e1 == len(a)-1 || r.e2 == len(b)-1 {
		c.Count("alignment-ending-at-last-residue")
	}
	if hasGap && border && r.row1[0] != '-' && r.row2[0] != '-' {
		// a gap whose run touches the first row or column of the DP matrix
		k := 1
		for k < len(r.row1) && r.row1[k] != '-' && r.row2[k] != '-' {
			k++
		}
		if k == 1 && (r.s1 == 0 && r.s2 == 0) {
			c.Count("gap-right-after-first-cell")
		}
	}
	if hasGap || border {
		c.NonTrivial(a, b, fmt.Sprintf("%+v", sc))
	}
}

func runExhaustive(c *mon.Case) {
	k := c.Idx / len(exhStrings)
	a := exhStrings[c.Idx%len(exhStrings)]
	sc := exhSchemes[k]
	c.Input(map[string]interface{}{"s1": a, "s2": "every string over {A,C,G} of length 1..4 (120)", "scheme": sc})
	for _, b := range exhStrings {
		opt, r := checkPair(c, a, b, sc, true)
		classify(c, a, b, sc, opt, r)
		c.Count("exhaustive-pairs")
	}
	c.Count(fmt.Sprintf("exhaustive-scheme:%d", k))
}

func randScheme(r *gen.Rand, kind string) scheme {
	if r.Chance(0.08) {
		// scores a user types and a float cannot hold exactly (sums depend on the order of the additions in their last bits)
		sc := scheme{Matrix: kind, Inexact: true}
		if r.Bool() {
			sc = scheme{Match: r.PickF([]float64{1, 0.7, 4.5, 1.1}), Mismatch: -r.PickF([]float64{1, 0.9, 0.3}), Inexact: true}
		}
		sc.Extend = -r.PickF([]float64{0.6, 0.1, 0.3, 0.7})
		sc.Open = sc.Extend - r.PickF([]float64{0, 1.7, 2.3, 0.1, 9.4})
		return sc
	}
	if r.Chance(0.45) {
		// dyadic values: every score is exact in floating point; some finer than 1/100 (a score "tidied" to two
		// decimals is then another number)
		ext := -r.PickF([]float64{0.25, 0.5, 0.5, 1, 2, 0.125, 0.0625})
		open := ext - r.PickF([]float64{0, 0.5, 1, 3, 9.5, 10, 1.125})
		return scheme{Matrix: kind, Open: open, Extend: ext}
	}
	ext := -r.PickF([]float64{0.25, 0.5, 1, 1.5, 2, 0.125, 0.0625})
	open := ext - r.PickF([]float64{0, 0, 0.5, 1, 2.5, 8, 1.125})
	return scheme{Match: r.PickF([]float64{0.5, 1, 1, 2, 3, 5, 8, 0.375, 1.001953125}), Mismatch: -r.PickF([]float64{0.25, 0.5, 1, 1, 2, 4, 0.4375}), Open: open, Extend: ext}
}

const ntLetters = "ACGT"
const ntIUPAC = "ACGTACGTACGTRYSWKMBDHVNU"
const aaLetters = "ARNDCQEGHILKMFPSTWYV"
const aaAll = "ARNDCQEGHILKMFPSTWYVARNDCQEGHILKMFPSTWYVBZX*"

// related derives b from a by substitutions, insertions and deletions and random flanks.
func related(r *gen.Rand, a string, alpha string) string {
	var sb strings.Builder
	sub, ins, del := r.PickF([]float64{0, 0.05, 0.15, 0.3}), r.PickF([]float64{0, 0.03, 0.08, 0.2}), r.PickF([]float64{0, 0.03, 0.08, 0.2})
	if r.Chance(0.5) {
		sb.WriteString(r.Str(r.Intn(6), alpha))
	}
	st, en := 0, len(a)
	if r.Chance(0.4) {
		st = r.Intn(len(a))
		en = r.Range(st, len(a))
	}
	for i := st; i < en; i++ {
		if r.Chance(del) {
			for n := r.Range(1, 3); n > 1 && i < en-1; n-- {
				i++
			}
			continue
		}
		if r.Chance(ins) {
			sb.WriteString(r.Str(r.Range(1, 3), alpha))
		}
		if r.Chance(sub) {
			sb.WriteByte(r.Pick(alpha))
		} else {
			sb.WriteByte(a[i])
		}
	}
	if r.Chance(0.5) {
		sb.WriteString(r.Str(r.Intn(6), alpha))
	}
	if sb.Len() == 0 {
		sb.WriteByte(r.Pick(alpha))
	}
	return sb.String()
}

func mixCase(r *gen.Rand, s string) string {
	b := []byte(s)
	for i := range b {
		if b[i] >= 'A' && b[i] <= 'Z' && r.Chance(0.3) {
			b[i] += 32
		}
	}
	return string(b)
}

func runRandom(c *mon.Case, protein bool) {
	r := c.R
	alpha := ntLetters
	kind := "dnafull"
	if protein {
		alpha, kind = aaLetters, "blosum62"
		if r.Chance(0.4) {
			alpha = aaAll
		}
	} else if r.Chance(0.4) {
		alpha = ntIUPAC
	} else if r.Chance(0.2) {
		alpha = "AC" // low complexity: many ties, many equally good paths
	} else if r.Chance(0.15) {
		alpha = "ACGTNX" // N and X are two different letters (they share one row of the nucleotide matrix)
	}
	maxL := 60
	if c.Tier == "thorough" && r.Chance(0.1) {
		maxL = 250
	}
	la := r.PickInt([]int{1, 1, 2, 3, 4, 5, 6, 8, 10, 15, 20, 30, 45, maxL})
	a := r.Str(la, alpha)
	var b string
	shape := r.Intn(6)
	switch shape {
	case 0, 1:
		b = related(r, a, alpha)
	case 2:
		b = r.Str(r.PickInt([]int{1, 1, 2, 3, 4, 5, 8, 12, 20, 40, maxL}), alpha)
	case 3: // b is a substring of a touching one of its ends (alignment must start at 0 / end at the last index)
		if r.Bool() {
			b = a[:r.Range(1, la)]
		} else {
			b = a[r.Intn(la):]
		}
		if r.Chance(0.5) {
			b = r.Str(r.Intn(4), alpha) + b + r.Str(r.Intn(4), alpha)
		}
	case 4: // one residue
		b = string(r.Pick(alpha))
	default: // a with one internal block removed or inserted (a single long gap)
		if la >= 4 {
			p := r.Range(1, la-2)
			q := r.Range(p+1, la-1)
			if r.Bool() {
				b = a[:p] + a[q:]
			} else {
				b = a[:p] + r.Str(q-p, alpha) + a[p:]
			}
		} else {
			b = related(r, a, alpha)
		}
	}
	if r.Bool() {
		a, b = b, a
	}
	sc := randScheme(r, kind)
	if protein {
		// make sure the pair is taken for a protein pair: at least one letter that is no nucleotide code in b
		if strings.Trim(a+b, "ACGTUORYSWKMBDHVNXacgtuoryswkmbdhvnx*") == "" {
			b += "L"
		}
	}
	if sc.Matrix != "" && r.Chance(0.25) {
		a, b = mixCase(r, a), mixCase(r, b) // the matrices are case-insensitive
		c.Count("mixed-case")
	}
	c.Input(map[string]interface{}{"s1": a, "s2": b, "scheme": sc, "shape": shape})
	opt, res := checkPair(c, a, b, sc, len(a) <= 5 && len(b) <= 5)
	classify(c, a, b, sc, opt, res)
	if sc.Matrix == "" {
		c.Count("scheme:match-mismatch")
	} else {
		c.Count("scheme:" + sc.Matrix)
	}
	c.Count(fmt.Sprintf("shape:%d", shape))
	if res.err == nil {
		c.Note("optimum=%v rows=%s/%s", opt, res.row1, res.row2)
	}
}

// runInputs: the two input sequences are bit-identical after the call, whatever the algorithm (plain
// Smith-Waterman or the variant anchored at the start of the first sequence, which works on reversed copies)
// and whether the alignment succeeds or fails midway (a residue without matrix entry, a nucleotide against a
// protein sequence).
func runInputs(c *mon.Case) {
	r := c.R
	var a, b string
	kind := r.Intn(5)
	switch kind {
	case 0:
		a, b = r.Str(r.Range(1, 40), ntLetters), r.Str(r.Range(1, 40), ntLetters)
	case 1:
		a, b = r.Str(r.Range(1, 30), aaLetters)+"L", r.Str(r.Range(1, 30), aaLetters)
	case 2: // '*' passes alphabet detection but has no entry in the nucleotide matrix
		a, b = r.Str(r.Range(1, 20), ntLetters)+"*"+r.Str(r.Intn(5), ntLetters), r.Str(r.Range(1, 20), ntLetters)
	case 3: // nucleotide only against protein only
		a, b = r.Str(r.Range(2, 20), "ACGU")+"U", r.Str(r.Range(2, 20), "EFILPQ")
	default: // unknown symbols
		a, b = r.Str(r.Range(1, 20), ntLetters)+r.PickStr([]string{"?", "!", "1", "J"}), r.Str(r.Range(1, 20), ntLetters)
	}
	if r.Bool() {
		a, b = b, a
	}
	algo := align.ALIGN_ALGO_SW
	if r.Bool() {
		algo = align.ALIGN_ALGO_ATG
	}
	setScore := r.Chance(0.3)
	c.Input(map[string]interface{}{"s1": a, "s2": b, "anchored_algorithm": algo == align.ALIGN_ALGO_ATG, "set_score": setScore})
	q1 := align.NewSequence("seq1", []uint8(a), "c1")
	q2 := align.NewSequence("seq2", []uint8(b), "c2")
	pw := align.NewPwAligner(q1, q2, algo)
	if setScore {
		pw.SetScore(2, -1)
	}
	pw.SetGapOpenScore(-3)
	pw.SetGapExtendScore(-0.5)
	_, err := pw.Alignment()
	if q1.Sequence() != a || q2.Sequence() != b || q1.Name() != "seq1" || q2.Name() != "seq2" || q1.Comment() != "c1" || q2.Comment() != "c2" {
		c.Failf("input-modified", "s1=%q s2=%q anchored=%v err=%v: the inputs are now %q and %q", a, b, algo == align.ALIGN_ALGO_ATG, err, q1.Sequence(), q2.Sequence())
		return
	}
	if err != nil {
		c.Count("inputs:alignment-failed")
	} else {
		c.Count("inputs:alignment-succeeded")
	}
	if algo == align.ALIGN_ALGO_ATG {
		c.Count("inputs:anchored")
	}
	c.NonTrivial(a, b, fmt.Sprint(algo, setScore))
}

// tables compares the substitution tables the binary was built with against the published ones.
func runTables(c *mon.Case) {
	protein := c.Idx == 1
	mat, pos := align.VerifSubstMatrix(protein)
	pub, name := pubDNA, "dnafull"
	if protein {
		pub, name = pubProt, "blosum62"
	}
	canon := func(ch byte) byte {
		if !protein && ch == 'X' {
			return 'N'
		}
		return ch
	}
	c.Input(map[string]interface{}{"table": name, "letters": len(pos)})
	n := 0
	for a, i := range pos {
		for b, j := range pos {
			want, ok := pub[[2]byte{canon(a), canon(b)}]
			if !ok {
				c.Failf(name+":table-letter", "letter pair %c%c of goalign's index is not in the published table", a, b)
				return
			}
			if i >= len(mat) || j >= len(mat[i]) {
				c.Failf(name+":table-shape", "index of %c%c outside the matrix", a, b)
				return
			}
			if mat[i][j] != want {
				c.Failf(name+":table-entry", "score(%c,%c) = %v, published %s gives %v", a, b, mat[i][j], name, want)
			}
			if mat[i][j] != mat[j][i] {
				c.Failf(name+":table-asymmetric", "score(%c,%c) = %v but score(%c,%c) = %v", a, b, mat[i][j], b, a, mat[j][i])
			}
			n++
		}
	}
	for k := range pub {
		if _, ok := pos[k[0]]; !ok {
			c.Failf(name+":table-letter-missing", "published letter %c has no index in goalign", k[0])
			return
		}
	}
	c.Add("table-entries-compared", n)
	c.NonTrivial(name)
}

// fixed witnesses: the defects found on the pinned tree (DESIGN.md section 2, #19-#21) and border cases
func runWitness(c *mon.Case) {
	type w struct {
		a, b string
		sc   scheme
	}
	def := scheme{Matrix: "", Match: 1, Mismatch: -1, Open: -10, Extend: -0.5}
	ws := []w{
		{"A", "A", def},     // #19: maximum on the first cell
		{"AT", "CA", def},   // #19: maximum in the first column
		{"CAA", "GAA", def}, // #20: trace-back must stop on a null border cell
		{"ACG", "AGAG", scheme{Matrix: "", Match: 4, Mismatch: -1, Open: -2, Extend: -0.5}}, // #21: gap opened from the first row
		{"AGAG", "ACG", scheme{Matrix: "", Match: 4, Mismatch: -1, Open: -2, Extend: -0.5}},
		{"AAGA", "AA", scheme{Matrix: "", Match: 4, Mismatch: -1, Open: -2, Extend: -0.5}},
		{"GATTACA", "GATACA", scheme{Matrix: "", Match: 2, Mismatch: -1, Open: -2, Extend: -0.5}},
		{"ACGTACGTTTGACGT", "ACGTACGTGACGT", scheme{Matrix: "dnafull", Match: 0, Mismatch: 0, Open: -10, Extend: -0.5}},
		{"HEAGAWGHEE", "PAWHEAE", scheme{Matrix: "blosum62", Match: 0, Mismatch: 0, Open: -10, Extend: -0.5}},
		{"HEAGAWGHEE", "PAWHEAE", scheme{Matrix: "blosum62", Match: 0, Mismatch: 0, Open: -2, Extend: -0.5}},
		// running gap of the first row / column lost when the previous border cell is a (worse) fresh match (fixed by 8d59b93)
		{"EF", "EQLF", scheme{Matrix: "blosum62", Match: 0, Mismatch: 0, Open: -3.25, Extend: -0.25}},
		{"EQLF", "EF", scheme{Matrix: "blosum62", Match: 0, Mismatch: 0, Open: -3.25, Extend: -0.25}},
		{"AKEYFWDLVVNIPDNMAHIN", "EM", scheme{Matrix: "blosum62", Match: 0, Mismatch: 0, Open: -1.25, Extend: -0.25}},
		{"AANAA", "AAXAA", def}, // N facing X is a mismatch under match / mismatch scoring
		{"C", "G", def}, // no positive local alignment at all
		{"acgtNNacgt", "ACGTACGT", scheme{Matrix: "dnafull", Match: 0, Mismatch: 0, Open: -3, Extend: -1}},
		// gap scores a float cannot hold exactly: the trace-back missed the end of the gap run (fixed by cbf530f)
		{"CAAGGCGGCTGGCCTTGATTACCGTTACTTTA", "GAAGGCGGCTGTGATTAACCTTACTTTA", scheme{Match: 1, Mismatch: -1, Open: -2.3, Extend: -0.6, Inexact: true}},
		{"GCAGTAGGAAAGCCTGTATCCTTGAGTTAGAATCCAAGTATTTGCCCAGTGCGCAGAACC", "GCAGTAGGAAAGCCTGTATCTTTTTAGAATCCAAGTATTTGCTCATTGAGCCGATCC", scheme{Match: 1, Mismatch: -1, Open: -2.3, Extend: -0.6, Inexact: true}},
	}
	x := ws[c.Idx%len(ws)]
	c.Input(map[string]interface{}{"s1": x.a, "s2": x.b, "scheme": x.sc})
	opt, r := checkPair(c, x.a, x.b, x.sc, len(x.a) <= 5 && len(x.b) <= 5)
	classify(c, x.a, x.b, x.sc, opt, r)
	c.NonTrivial(x.a, x.b, fmt.Sprintf("%+v", x.sc))
}

func main() {
	mon.SetNote("rule", "case = (s1, s2, scoring scheme) through align.NewPwAligner(ALIGN_ALGO_SW)+Set*+Alignment(), one aligner object per call. `exhaustive`: every ordered pair of strings over {A,C,G} of length 1..4 (120 x 120) under 10 schemes (7 match/mismatch schemes with affine or linear gaps incl. open > -match, 3 DNAfull schemes), each pair also solved by brute-force enumeration of all local alignments; `random-nt` / `random-aa`: random, related (substitutions + indels + flanks), substring-at-an-end, single-residue and single-long-gap pairs up to 60 residues (250 in thorough) over ACGT / IUPAC+U / two letters / 20 amino acids / + B Z X *, both cases with the matrices, random dyadic schemes (match/mismatch or DNAfull / BLOSUM62, open <= extend < 0). Oracles per pair: rows of equal length, no all-gap column, ungapped rows == the substrings delimited by the reported starts/ends, counts recomputed from the columns and adding up to Length, Alignment() object == Seq1Ali/Seq2Ali, inputs unchanged, and when the Gotoh optimum is > 0: MaxScore == score of the returned rows (own scorer) == optimum. `inputs`: both algorithms of the aligner (plain and anchored at the start of the first sequence), succeeding and failing calls (a residue without matrix entry, nucleotide against protein): the two input sequences are bit-identical afterwards. Non-trivial = optimum > 0 and (the alignment contains a gap or starts in the first row/column of the DP matrix); distinct = (s1, s2, scheme). `concurrent` (-race build): 2..8 goroutines, each aligning its own pair with its own aligner object 6 times at GOMAXPROCS 1..16 (long low-complexity pairs, common prefix + unrelated tails, related pairs): no race report and the result of the same call made alone. `cli`: `goalign sw` through the binary built from the tree under test: a FASTA file with two sequences (generators of random-nt / random-aa), --match and --mismatch both / only one / none, --gap-open and --gap-extend both / only one / none (documented defaults -10 / -0.5 / match 1 / mismatch -1), -l log, -o or stdout, output as fasta / -p (+ --output-strict / --one-line / --no-block) / -x / -u / -k; the alignment written is read back and must have two rows of equal length named as the input, no all-gap column, ungapped rows that are substrings of the inputs, and (when the Gotoh optimum under the CONFIGURED scheme is > 0) the score of the rows written == optimum; with -l: positions, length, counts and rows of the log agree with the rows written and the logged score == optimum; one / three sequences, an empty or missing file, an unknown flag, a non numeric score must end with an error message and a non zero status.")
	mon.SetNote("assumptions", "scores are dyadic rationals so float equality is exact, except in the 8 % of random schemes built from decimals such as -0.6 / -2.3 / 0.7 (scores then compared within 1e-7 relative; added after the defect repaired in cbf530f);; gap run of g columns costs open + (g-1)*extend, a gap in the other row starts a new run;; with SetScore two residues match iff their bytes are equal, with a matrix letters are case-folded (as the aligner documents);; NbMatches may count a letter facing its other-case form as a match or as a mismatch (statement silent), gap columns are counted exactly;; the score of a residue pair under a built-in matrix is read from the table the binary was built with (verif hook VerifSubstMatrix), and that table is compared entry by entry with the published EDNAFULL / BLOSUM62 typed in mon/c09/ref.go (goalign's additions: U scores like T, X like N in DNAfull);; Gotoh DP and brute force are the trusted oracles (they must agree with each other on every tiny pair, otherwise the harness panics);; empty sequences and nucleotide-vs-protein pairs are outside the quantifier;; cli: the scheme the user configured is read from the help text of `goalign sw`: substitution matrix (blosum62 / dnafull by the alphabets of the two sequences; letters common to both alphabets make a nucleotide sequence as AutoAlphabet documents) if neither --match nor --mismatch is given, else match / mismatch with the documented default (1 / -1) for the one left out; gap scores default to -10 / -0.5;; cli: the log prints the score with two decimals: generated scores are multiples of 1/4;; cli: Nexus / Clustal / Stockholm outputs are read back with goalign's own parsers (property C02) and only asked for plain upper case residues")
	mon.SetNote("exhaustive_subspaces", "all 14400 ordered pairs of strings over {A,C,G} with lengths 1..4 x 10 scoring schemes (both tiers), and all ordered pairs over {A,W,T} (DNAfull, 4 gap schemes), {E,Z,P} (BLOSUM62, 4) and {E,Q,L,F} (BLOSUM62, 2 schemes, 340 x 340 pairs) with lengths 1..4, each checked against Gotoh and brute force; all entries of both substitution tables")
	mon.Floor("exhaustive-pairs", 144000)
	mon.Floor("brute-force-agreed-with-gotoh", 144000)
	mon.Floor("exhaustive-matrix-pairs", 8*14400+2*115600)
	mon.Floor("alignment-with-gap", 2000)
	mon.Floor("alignment-starting-in-first-row-or-column", 10000)
	mon.Floor("scheme:match-mismatch", 1000)
	mon.Floor("inputs:alignment-failed", 1000)
	mon.Floor("inputs:alignment-succeeded", 1000)
	mon.Floor("inputs:anchored", 1000)
	mon.Floor("scheme:dnafull", 1000)
	mon.Floor("scheme:blosum62", 1000)
	// cli sub-check: every flag given and omitted, every output mode, every refusal
	for _, k := range []string{"matrix", "match+mismatch", "match-only", "mismatch-only"} {
		mon.Floor("cli:scoring:"+k, 40)
	}
	for _, k := range []string{"defaults", "open+extend", "open-only", "extend-only"} {
		mon.Floor("cli:gaps:"+k, 30)
	}
	for _, k := range []string{"fasta", "phylip", "phylip-strict", "phylip-oneline", "phylip-noblock", "nexus", "clustal", "stockholm"} {
		mon.Floor("cli:output-format:"+k, 15)
	}
	for _, k := range cliRefusals {
		mon.Floor("cli:refusal:"+k, 4)
	}
	mon.Floor("cli:witness", len(cliWitnesses))
	mon.Floor("cli:log", 150)
	mon.Floor("cli:no-log", 30)
	mon.Floor("cli:output:stdout", 40)
	mon.Floor("cli:output:file", 120)
	mon.Floor("cli:protein", 60)
	mon.Floor("cli:nucleotide", 120)
	mon.Floor("cli:alignment-with-gap", 15)
	mon.Floor("concurrent:alignments", 3000)
	mon.Main("C09", []mon.Sub{
		{Name: "witness", Quick: 18, Thorough: 18, Run: runWitness},
		{Name: "tables", Quick: 2, Thorough: 2, Run: runTables},
		{Name: "exhaustive", Quick: len(exhSchemes) * len(exhStrings), Thorough: len(exhSchemes) * len(exhStrings), Run: runExhaustive},
		{Name: "exhaustive-matrix", Quick: nExhMatrixCases(), Thorough: nExhMatrixCases(), Run: runExhaustiveMatrix},
		{Name: "inputs", Quick: 40000, Thorough: 800000, Run: runInputs},
		{Name: "random-nt", Quick: 600000, Thorough: 6000000, Run: func(c *mon.Case) { runRandom(c, false) }},
		{Name: "random-aa", Quick: 300000, Thorough: 3000000, Run: func(c *mon.Case) { runRandom(c, true) }},
		{Name: "concurrent", Quick: 160, Thorough: 3200, Race: true, Run: runConcurrent},
		{Name: "cli", Quick: 360, Thorough: 4000, Run: runCli},
	})
}
