// cli sub-check of C09: the local aligner through `goalign sw` (cmd/sw.go). The binary is built once
// per process from the tree under test (VERIF_REPO) into the scratch directory; every case works in
// its own directory: it writes a FASTA file with two sequences, draws the scoring flags (--match and
// --mismatch both / one / none, --gap-open, --gap-extend given or left to the documented defaults
// -10 / -0.5), the log (-l) and the output (-o or stdout; fasta, -p with --output-strict / --one-line /
// --no-block, -x, -u, -k), runs the command, parses the log and the alignment written and applies the
// oracles of the library sub-checks (scorer, Gotoh optimum) under the scheme the USER configured by the
// help text: "If neither --match nor --mismatch are specified, then match and mismatch scores are taken
// from blosum62 or dnafull"; a flag left out keeps its documented default (match 1, mismatch -1).
package main

import (
	"bytes"
	"fmt"
	"os"
	"os/exec"
	"path/filepath"
	"regexp"
	"strconv"
	"strings"

	"github.com/evolbioinfo/goalign/align"
	"github.com/evolbioinfo/goalign/io/clustal"
	"github.com/evolbioinfo/goalign/io/nexus"
	"github.com/evolbioinfo/goalign/io/phylip"
	"github.com/evolbioinfo/goalign/io/stockholm"

	"verif/lib/gen"
	"verif/lib/mon"
)

var cliBin, cliDir, cliBuildErr string

func cliSetup() bool {
	if cliBin != "" {
		return true
	}
	if cliBuildErr != "" {
		return false
	}
	repo := os.Getenv("VERIF_REPO")
	if repo == "" {
		repo = "/repo"
	}
	scratch := os.Getenv("VERIF_SCRATCH")
	if scratch == "" {
		scratch = os.TempDir()
	}
	dir, err := os.MkdirTemp(scratch, "c09-cli-")
	if err != nil {
		cliBuildErr = err.Error()
		fmt.Fprintln(os.Stderr, "c09 cli: "+cliBuildErr)
		return false
	}
	bin := filepath.Join(dir, "goalign")
	cmd := exec.Command("go", "build", "-o", bin, ".")
	cmd.Dir = repo
	env := []string{}
	for _, e := range os.Environ() {
		if !strings.HasPrefix(e, "GOFLAGS=") {
			env = append(env, e)
		}
	}
	cmd.Env = append(env, "GOFLAGS=-mod=readonly", "GOPROXY=off", "GOSUMDB=off", "GOTOOLCHAIN=local")
	if out, err := cmd.CombinedOutput(); err != nil {
		cliBuildErr = fmt.Sprintf("go build of %s failed: %v\n%s", repo, err, out)
		fmt.Fprintln(os.Stderr, "c09 cli: "+cliBuildErr)
		os.RemoveAll(dir)
		return false
	}
	cliBin, cliDir = bin, dir
	return true
}

type cliCase struct {
	S1, S2        string   `json:"-"`
	Seqs          []string `json:"seqs"`
	Names         []string `json:"names"`
	Protein       bool     `json:"protein"`
	MatchGiven    bool     `json:"match_given"`
	MismatchGiven bool     `json:"mismatch_given"`
	OpenGiven     bool     `json:"gap_open_given"`
	ExtendGiven   bool     `json:"gap_extend_given"`
	Sc            scheme   `json:"configured_scheme"` // what the flags mean (Matrix "auto": by the alphabets)
	Log           bool     `json:"log"`
	Stdout        bool     `json:"stdout"`
	OutFmt        string   `json:"output_format"`
	Refusal       string   `json:"refusal,omitempty"`
	Args          []string `json:"args"`
}

var cliOutFmts = []string{"fasta", "fasta", "phylip", "phylip-strict", "phylip-oneline", "phylip-noblock", "nexus", "clustal", "stockholm", "fasta"}
var cliRefusals = []string{"one-sequence", "three-sequences", "empty-file", "missing-file", "unknown-flag", "match-not-a-number"}

// fixed command lines: the defects found on the pinned tree through the command, and the documented example
var cliWitnesses = []cliCase{
	{Seqs: []string{"A", "A"}, MatchGiven: true, MismatchGiven: true, Sc: scheme{Matrix: "", Match: 1, Mismatch: -1, Open: -10, Extend: -0.5}, Log: true, OutFmt: "fasta"},
	{Seqs: []string{"AT", "CA"}, Sc: scheme{Matrix: "auto", Match: 0, Mismatch: 0, Open: -10, Extend: -0.5}, Log: true, OutFmt: "fasta"},
	{Seqs: []string{"CAA", "GAA"}, MatchGiven: true, Sc: scheme{Matrix: "", Match: 1, Mismatch: -1, Open: -10, Extend: -0.5}, Log: true, OutFmt: "phylip"},
	{Seqs: []string{"ACG", "AGAG"}, MatchGiven: true, MismatchGiven: true, OpenGiven: true, ExtendGiven: true, Sc: scheme{Matrix: "", Match: 4, Mismatch: -1, Open: -2, Extend: -0.5}, Log: true, OutFmt: "fasta"},
	{Seqs: []string{"AAGA", "AA"}, MatchGiven: true, OpenGiven: true, Sc: scheme{Matrix: "", Match: 4, Mismatch: -1, Open: -2, Extend: -0.5}, Log: true, OutFmt: "fasta"},
	{Seqs: []string{"EF", "EQLF"}, Protein: true, OpenGiven: true, ExtendGiven: true, Sc: scheme{Matrix: "auto", Match: 0, Mismatch: 0, Open: -3.25, Extend: -0.25}, Log: true, OutFmt: "fasta"},
	{Seqs: []string{"HEAGAWGHEE", "PAWHEAE"}, Protein: true, Sc: scheme{Matrix: "auto", Match: 0, Mismatch: 0, Open: -10, Extend: -0.5}, Log: true, OutFmt: "clustal"},
	{Seqs: []string{"C", "G"}, MismatchGiven: true, Sc: scheme{Matrix: "", Match: 1, Mismatch: -1, Open: -10, Extend: -0.5}, Log: true, OutFmt: "fasta"},
	{Seqs: []string{"CTGGGGTTTAACCAGCCATGCCAGTGCAGGTTTAAGAACCGATCCGTACTCTGGGTTACTGATGAAGGATGGGCCGTATCGCCCCCTTGCGACGTTTCCA", "TATTATCGTATCGTTTGCATAGACCCGTTATGCCAGCAGATACAGCGTCACAAACTTAGGCTGTAGGGCGTTAGCGGCGCTCCATGTTTAGACTCACGCC"}, Sc: scheme{Matrix: "auto", Match: 0, Mismatch: 0, Open: -10, Extend: -0.5}, Log: true, OutFmt: "fasta"},
}

func genCliCase(r *gen.Rand, idx int) cliCase {
	k := cliCase{Protein: idx%3 == 2}
	k.OutFmt = cliOutFmts[(idx/3)%len(cliOutFmts)]
	plainOut := k.OutFmt == "nexus" || k.OutFmt == "clustal" || k.OutFmt == "stockholm"
	alpha := ntLetters
	if k.Protein {
		alpha = aaLetters
		if r.Chance(0.4) && !plainOut {
			alpha = aaAll
		}
	} else if r.Chance(0.4) && !plainOut {
		alpha = ntIUPAC
	} else if r.Chance(0.2) {
		alpha = "AC"
	}
	la := r.PickInt([]int{1, 1, 2, 3, 4, 5, 6, 8, 10, 15, 20, 30, 45, 60, 90})
	a := r.Str(la, alpha)
	var b string
	switch r.Intn(6) {
	case 0, 1, 2:
		b = related(r, a, alpha)
	case 3:
		b = r.Str(r.PickInt([]int{1, 2, 3, 5, 8, 12, 20, 40}), alpha)
	case 4:
		if r.Bool() {
			b = a[:r.Range(1, la)]
		} else {
			b = a[r.Intn(la):]
		}
		if r.Bool() {
			b = r.Str(r.Intn(4), alpha) + b + r.Str(r.Intn(4), alpha)
		}
	default:
		if la >= 4 {
			p := r.Range(1, la-2)
			q := r.Range(p+1, la-1)
			b = a[:p] + a[q:]
		} else {
			b = string(r.Pick(alpha))
		}
	}
	if r.Bool() {
		a, b = b, a
	}
	if k.Protein && strings.Trim(a+b, "ACGTUORYSWKMBDHVNXacgtuoryswkmbdhvnx*") == "" {
		b += "L" // a letter that is no nucleotide code: the pair is a protein pair by the documented letter classes
	}
	// scoring flags: --match / --mismatch none, both, only one
	switch (idx / 2) % 4 {
	case 0:
		k.Sc.Matrix = "auto"
	case 1:
		k.MatchGiven, k.MismatchGiven = true, true
	case 2:
		k.MatchGiven = true
	default:
		k.MismatchGiven = true
	}
	k.Sc.Match, k.Sc.Mismatch = 1, -1 // documented defaults
	if k.MatchGiven {
		k.Sc.Match = r.PickF([]float64{0.5, 1, 2, 2, 3, 5, 8})
	}
	if k.MismatchGiven {
		k.Sc.Mismatch = -r.PickF([]float64{0.25, 0.5, 1, 2, 2, 4})
	}
	if k.Sc.Matrix == "auto" {
		k.Sc.Match, k.Sc.Mismatch = 0, 0
		if r.Chance(0.25) && !plainOut {
			a, b = mixCase(r, a), mixCase(r, b) // the matrices are case-insensitive
		}
	}
	k.Sc.Open, k.Sc.Extend = -10, -0.5 // documented defaults
	switch r.Intn(4) {
	case 0:
	case 1:
		k.OpenGiven, k.ExtendGiven = true, true
		k.Sc.Extend = -r.PickF([]float64{0.25, 0.5, 0.5, 1, 2})
		k.Sc.Open = k.Sc.Extend - r.PickF([]float64{0, 0.5, 1, 3, 9.5})
	case 2:
		k.OpenGiven = true
		k.Sc.Open = -r.PickF([]float64{0.5, 1, 2, 3.5, 6})
	default:
		k.ExtendGiven = true
		k.Sc.Extend = -r.PickF([]float64{0.25, 1, 2, 10})
	}
	k.Seqs = []string{a, b}
	k.Log = r.Chance(0.75)
	k.Stdout = r.Chance(0.3)
	if idx%9 == 8 {
		k.Refusal = cliRefusals[(idx/9)%len(cliRefusals)]
	}
	return k
}

func seqClass(s string) (nt, aa bool) {
	nt, aa = true, true
	for _, ch := range strings.ToUpper(s) {
		switch ch {
		case 'U', 'O':
			aa = false
		case 'Q', 'E', 'I', 'L', 'F', 'P', 'Z':
			nt = false
		}
	}
	return
}

var (
	reQuery   = regexp.MustCompile(`(?m)^Query Start,End: (-?\d+),(-?\d+)$`)
	reSubject = regexp.MustCompile(`(?m)^Subject Start,End: (-?\d+),(-?\d+)$`)
	reLength  = regexp.MustCompile(`(?m)^Align length: (-?\d+)$`)
	reScore   = regexp.MustCompile(`(?m)^Align Score: (\S+)$`)
	reMatches = regexp.MustCompile(`(?m)^Align Matches: (-?\d+)$`)
	reMism    = regexp.MustCompile(`(?m)^Align Mismatches: (-?\d+)$`)
	reGaps    = regexp.MustCompile(`(?m)^Align Gaps: (-?\d+)$`)
)

func atoi(s string) int { v, _ := strconv.Atoi(s); return v }

func parseAlignment(format string, b []byte) (names, rows []string, err error) {
	var al align.Alignment
	switch format {
	case "fasta":
		for _, ln := range strings.Split(string(b), "\n") {
			ln = strings.TrimRight(ln, "\r")
			if strings.HasPrefix(ln, ">") {
				names = append(names, ln[1:])
				rows = append(rows, "")
			} else if len(rows) > 0 {
				rows[len(rows)-1] += strings.TrimSpace(ln)
			} else if strings.TrimSpace(ln) != "" {
				return nil, nil, fmt.Errorf("text before the first '>' line: %q", ln)
			}
		}
		return
	case "phylip", "phylip-oneline", "phylip-noblock":
		al, err = phylip.NewParser(bytes.NewReader(b), false).Parse()
	case "phylip-strict":
		al, err = phylip.NewParser(bytes.NewReader(b), true).Parse()
	case "nexus":
		al, err = nexus.NewParser(bytes.NewReader(b)).Parse()
	case "clustal":
		al, err = clustal.NewParser(bytes.NewReader(b)).Parse()
	case "stockholm":
		al, err = stockholm.NewParser(bytes.NewReader(b)).Parse()
	}
	if err != nil {
		return
	}
	if al == nil {
		return nil, nil, fmt.Errorf("no alignment")
	}
	for i := 0; i < al.NbSequences(); i++ {
		n, _ := al.GetSequenceNameById(i)
		s, _ := al.GetSequenceById(i)
		names = append(names, n)
		rows = append(rows, s)
	}
	return
}

func fmtF(f float64) string { return strconv.FormatFloat(f, 'g', -1, 64) }

func pickS(r *gen.Rand, a ...string) string { return a[r.Intn(len(a))] }

func runCli(c *mon.Case) {
	if !cliSetup() {
		return // the floors cli:* are missed: INCONCLUSIVE, not a violation
	}
	r := c.R
	var k cliCase
	if c.Idx < len(cliWitnesses) {
		k = cliWitnesses[c.Idx]
		c.Count("cli:witness")
	} else {
		k = genCliCase(r, c.Idx)
	}
	k.Names = []string{pickS(r, "seq1", "q", "nt1", "A"), pickS(r, "seq2", "subject_2", "nt2", "B|x")}
	if k.OutFmt == "nexus" || k.OutFmt == "clustal" || k.OutFmt == "stockholm" {
		k.Names[1] = pickS(r, "seq2", "subject_2", "nt2", "B2")
	}
	a, b := k.Seqs[0], k.Seqs[1]
	dir, err := os.MkdirTemp(cliDir, "case-")
	if err != nil {
		panic("harness: " + err.Error())
	}
	defer os.RemoveAll(dir)
	if c.Verbose { // single case replay: do not leave the binary behind
		defer func() { os.RemoveAll(cliDir); cliBin, cliDir = "", "" }()
	}
	in := filepath.Join(dir, "seqs.fa")
	var fa strings.Builder
	wr := func(name, s string) {
		fmt.Fprintf(&fa, ">%s\n", name)
		for len(s) > 60 {
			fa.WriteString(s[:60] + "\n")
			s = s[60:]
		}
		fa.WriteString(s + "\n")
	}
	switch k.Refusal {
	case "one-sequence":
		wr(k.Names[0], a)
	case "three-sequences":
		wr(k.Names[0], a)
		wr(k.Names[1], b)
		wr("third", a)
	case "empty-file":
	default:
		wr(k.Names[0], a)
		wr(k.Names[1], b)
	}
	if k.Refusal != "missing-file" {
		if err := os.WriteFile(in, []byte(fa.String()), 0644); err != nil {
			panic("harness: " + err.Error())
		}
	}
	out, logf := filepath.Join(dir, "ali.out"), filepath.Join(dir, "ali.log")
	args := []string{"sw", pickS(r, "-i", "--align"), in}
	if !k.Stdout {
		args = append(args, pickS(r, "-o", "--output"), out)
	}
	if k.Log {
		args = append(args, pickS(r, "-l", "--log"), logf)
	}
	if k.MatchGiven {
		m := fmtF(k.Sc.Match)
		if k.Refusal == "match-not-a-number" {
			m = "high"
		}
		args = append(args, "--match", m)
	} else if k.Refusal == "match-not-a-number" {
		args = append(args, "--mismatch=low")
	}
	if k.MismatchGiven {
		args = append(args, "--mismatch="+fmtF(k.Sc.Mismatch))
	}
	if k.OpenGiven {
		args = append(args, "--gap-open", fmtF(k.Sc.Open))
	}
	if k.ExtendGiven {
		args = append(args, "--gap-extend="+fmtF(k.Sc.Extend))
	}
	switch k.OutFmt {
	case "phylip":
		args = append(args, pickS(r, "-p", "--phylip"))
	case "phylip-strict":
		args = append(args, "-p", "--output-strict")
	case "phylip-oneline":
		args = append(args, "-p", "--one-line")
	case "phylip-noblock":
		args = append(args, "-p", "--no-block")
	case "nexus":
		args = append(args, pickS(r, "-x", "--nexus"))
	case "clustal":
		args = append(args, pickS(r, "-u", "--clustal"))
	case "stockholm":
		args = append(args, pickS(r, "-k", "--stockholm"))
	}
	if k.Refusal == "unknown-flag" {
		args = append(args, pickS(r, "--gap", "--gapopen=-3", "--matrix=blosum62", "-z"))
	}
	k.Args = args
	c.Input(k)
	cmd := exec.Command(cliBin, args...)
	cmd.Dir = dir
	var so, se bytes.Buffer
	cmd.Stdout, cmd.Stderr = &so, &se
	runErr := cmd.Run()
	exit := 0
	if runErr != nil {
		exit = -1
		if ee, ok := runErr.(*exec.ExitError); ok {
			exit = ee.ExitCode()
		}
	}
	c.Count("cli:runs")
	logb, _ := os.ReadFile(logf)
	ctx := func() string {
		return fmt.Sprintf("goalign %s\ninput file:\n%sexit %d, stderr: %s\nlog file:\n%s", strings.Join(args, " "), fa.String(), exit, strings.TrimSpace(firstLines(se.String(), 3)), logb)
	}
	if strings.Contains(se.String(), "panic:") || strings.Contains(se.String(), "goroutine ") {
		c.Failf("cli:crash", "the command crashed\n%s\n%s", ctx(), firstLines(se.String(), 30))
		return
	}
	if k.Refusal != "" {
		c.Count("cli:refusal:" + k.Refusal)
		if exit == 0 {
			c.Failf("cli:refusal-expected:"+k.Refusal, "exit status 0 for a request that cannot be served (%s)\n%s", k.Refusal, ctx())
		} else if strings.TrimSpace(se.String()) == "" {
			c.Failf("cli:refusal-without-message", "exit status %d without any message (%s)\n%s", exit, k.Refusal, ctx())
		}
		return
	}
	if exit != 0 {
		c.Failf("cli:unexpected-error", "the command failed on a valid request\n%s", ctx())
		return
	}
	// the configured scheme(s)
	var schemes []scheme
	if k.Sc.Matrix == "auto" {
		// the matrix follows the alphabets of the two sequences; letters common to both alphabets only make a
		// nucleotide sequence (AutoAlphabet of the API documentation)
		nt1, aa1 := seqClass(a)
		nt2, aa2 := seqClass(b)
		switch {
		case nt1 && nt2:
			schemes = append(schemes, scheme{Matrix: "dnafull", Open: k.Sc.Open, Extend: k.Sc.Extend})
		case aa1 && aa2:
			schemes = append(schemes, scheme{Matrix: "blosum62", Open: k.Sc.Open, Extend: k.Sc.Extend})
		default:
			panic("harness: generated a nucleotide against protein pair")
		}
		c.Count("cli:scoring:matrix")
	} else {
		schemes = []scheme{{Match: k.Sc.Match, Mismatch: k.Sc.Mismatch, Open: k.Sc.Open, Extend: k.Sc.Extend}}
		switch {
		case k.MatchGiven && k.MismatchGiven:
			c.Count("cli:scoring:match+mismatch")
		case k.MatchGiven:
			c.Count("cli:scoring:match-only")
		default:
			c.Count("cli:scoring:mismatch-only")
		}
	}
	switch {
	case k.OpenGiven && k.ExtendGiven:
		c.Count("cli:gaps:open+extend")
	case k.OpenGiven:
		c.Count("cli:gaps:open-only")
	case k.ExtendGiven:
		c.Count("cli:gaps:extend-only")
	default:
		c.Count("cli:gaps:defaults")
	}
	c.Count("cli:output-format:" + k.OutFmt)
	// the alignment written
	text := so.Bytes()
	if !k.Stdout {
		text, err = os.ReadFile(out)
		if err != nil {
			c.Failf("cli:no-output-file", "-o %s: %v\n%s", out, err, ctx())
			return
		}
		if strings.TrimSpace(so.String()) != "" {
			c.Failf("cli:stdout-with-output-file", "alignment expected in the -o file only, stdout holds %q\n%s", firstLines(so.String(), 3), ctx())
			return
		}
		c.Count("cli:output:file")
	} else {
		c.Count("cli:output:stdout")
	}
	names, rows, perr := parseAlignment(k.OutFmt, text)
	fail := func(sig, format string, x ...interface{}) {
		c.Failf("cli:"+sig, "%s\n%s\noutput (%s):\n%s", fmt.Sprintf(format, x...), ctx(), k.OutFmt, firstLines(string(text), 12))
	}
	if perr != nil {
		fail("output-unreadable", "the alignment written cannot be read back as %s: %v", k.OutFmt, perr)
		return
	}
	if len(rows) != 2 {
		fail("output-rows", "%d sequences in the output, 2 expected", len(rows))
		return
	}
	wantNames := k.Names
	if k.OutFmt == "phylip-strict" {
		wantNames = []string{k.Names[0], k.Names[1]}
		for i := range names {
			names[i] = strings.TrimSpace(names[i])
		}
	}
	if names[0] != wantNames[0] || names[1] != wantNames[1] {
		fail("output-names", "output names %q, input names %q (same order expected)", names, wantNames)
		return
	}
	row1, row2 := []byte(rows[0]), []byte(rows[1])
	if len(row1) != len(row2) {
		fail("rows-unequal-length", "rows of %d and %d columns", len(row1), len(row2))
		return
	}
	if len(row1) == 0 {
		fail("empty-alignment", "no column")
		return
	}
	ng, nm, nmm, nmFold := 0, 0, 0, 0
	for i := range row1 {
		g1, g2 := row1[i] == '-', row2[i] == '-'
		switch {
		case g1 && g2:
			fail("all-gap-column", "column %d", i)
			return
		case g1 || g2:
			ng++
		case row1[i] == row2[i]:
			nm++
			nmFold++
		default:
			nmm++
			if upper(row1[i]) == upper(row2[i]) {
				nmFold++
			}
		}
	}
	u1, u2 := strip(row1), strip(row2)
	if !strings.Contains(a, u1) || !strings.Contains(b, u2) {
		fail("rows-are-not-substrings", "ungapped rows %q / %q are not substrings of the input sequences (in this order)", u1, u2)
		return
	}
	// optimum under every admissible reading of the configured scheme; the rows must reach it when it is > 0
	var sOK *scorer
	var opt, got float64
	matched := false
	for i, sc := range schemes {
		s := &scorer{sc: sc}
		if sc.Matrix != "" {
			s.mat, s.pos = align.VerifSubstMatrix(sc.Matrix == "blosum62")
		}
		o := s.gotoh([]byte(a), []byte(b))
		g := s.scoreAlignment(row1, row2)
		if i == 0 {
			sOK, opt, got = s, o, g
		}
		if o <= 0 || g == o {
			sOK, opt, got, matched = s, o, g, true
			break
		}
	}
	if !matched {
		fail("not-optimal", "the alignment written scores %v under the configured scheme %+v; the optimum (Gotoh) is %v", got, sOK.sc, opt)
		return
	}
	if opt <= 0 {
		c.Count("cli:no-positive-local-alignment")
	}
	if k.Log {
		lg := string(logb)
		mq, ms := reQuery.FindStringSubmatch(lg), reSubject.FindStringSubmatch(lg)
		ml, msc := reLength.FindStringSubmatch(lg), reScore.FindStringSubmatch(lg)
		mm, mmm, mg := reMatches.FindStringSubmatch(lg), reMism.FindStringSubmatch(lg), reGaps.FindStringSubmatch(lg)
		ai := strings.Index(lg, "Alignment:\n")
		if mq == nil || ms == nil || ml == nil || msc == nil || mm == nil || mmm == nil || mg == nil || ai < 0 {
			fail("log-format", "the log does not hold the documented lines")
			return
		}
		s1, e1, s2, e2 := atoi(mq[1]), atoi(mq[2]), atoi(ms[1]), atoi(ms[2])
		L, rnm, rnmm, rng := atoi(ml[1]), atoi(mm[1]), atoi(mmm[1]), atoi(mg[1])
		score, serr := strconv.ParseFloat(msc[1], 64)
		if serr != nil {
			fail("log-format", "score %q is not a number", msc[1])
			return
		}
		al := strings.Split(lg[ai+len("Alignment:\n"):], "\n")
		if len(al) < 3 || al[0] != string(row1) || al[2] != string(row2) {
			fail("log-alignment-differs-from-output", "the rows of the log %q differ from the rows written %q %q", al, row1, row2)
			return
		}
		if s1 < 0 || s2 < 0 || e1 >= len(a) || e2 >= len(b) || s1 > e1+1 || s2 > e2+1 {
			fail("positions-out-of-range", "starts (%d,%d) ends (%d,%d) for sequences of %d and %d residues", s1, s2, e1, e2, len(a), len(b))
			return
		}
		if u1 != a[s1:e1+1] || u2 != b[s2:e2+1] {
			fail("rows-are-not-the-reported-substrings", "s1[%d..%d]=%q s2[%d..%d]=%q, ungapped rows %q %q", s1, e1, a[s1:e1+1], s2, e2, b[s2:e2+1], u1, u2)
			return
		}
		if rnm+rnmm+rng != L || L != len(row1) {
			fail("counts-do-not-add-up", "matches %d + mismatches %d + gaps %d, length %d, %d columns written", rnm, rnmm, rng, L, len(row1))
			return
		}
		if rng != ng || !((rnm == nm && rnmm == nmm) || (rnm == nmFold && rnmm == nm+nmm-nmFold)) {
			fail("counts-wrong", "columns hold %d identical pairs, %d different pairs, %d gap columns; the log reports %d / %d / %d", nm, nmm, ng, rnm, rnmm, rng)
			return
		}
		if opt > 0 && score != opt {
			fail("reported-score", "the log reports score %v; the alignment written scores %v under the configured scheme %+v, optimum (Gotoh) %v", score, got, sOK.sc, opt)
			return
		}
		c.Count("cli:log")
		if rng > 0 {
			c.Count("cli:alignment-with-gap")
		}
	} else {
		c.Count("cli:no-log")
	}
	if k.Protein {
		c.Count("cli:protein")
	} else {
		c.Count("cli:nucleotide")
	}
	if opt > 0 && (ng > 0 || strings.HasPrefix(a, u1) || strings.HasPrefix(b, u2)) {
		c.NonTrivial("cli", a, b, fmt.Sprintf("%+v", k.Sc), k.OutFmt)
	}
	c.Note("goalign %s -> %s / %s (optimum %v)", strings.Join(args[3:], " "), row1, row2, opt)
}

func firstLines(s string, n int) string {
	l := strings.SplitAfterN(s, "\n", n+1)
	if len(l) > n {
		l = l[:n]
	}
	return strings.Join(l, "")
}
