// C16 monitor: phasing (align.Phaser) and the longest-ORF search.
//
//	phase      relations on every result of Phase (substring at the reported position, frame,
//	           translation, exact copy => exact start, one result per input, inputs unchanged,
//	           same result set for two worker counts)                                   [plain build]
//	orf        Sequence.LongestORF / SeqBag.LongestORF against "every ATG, first in-frame stop"
//	           on sequences with overlapping reading frames; Phase(nil, ...) == Phase(longest ORF)
//	sched      Phase through a schedule-perturbing, event-recording SeqBag/Sequence wrapper,
//	           worker counts x GOMAXPROCS, exactly-once / conservation / closed-stream checker,
//	           result set == the single worker run                                       [-race build]
//	faults     a too short sequence or an injected Translate/Clone failure at the k-th call
//	           (k enumerated): the error arrives in the stream and the stream closes      [-race build]
package main

import (
	"errors"
	"fmt"
	"regexp"
	"runtime"
	"sort"
	"strings"
	"sync"
	"sync/atomic"
	"time"

	"github.com/evolbioinfo/goalign/align"

	"verif/lib/conc"
	"verif/lib/gen"
	"verif/lib/h"
	"verif/lib/mon"
	"verif/lib/ref"
)

// ---------------------------------------------------------------- workload

var stopsAny = map[string]bool{"TAA": true, "TAG": true, "TGA": true, "AGA": true, "AGG": true} // a stop in at least one of the 3 codes

// genORF returns ATG + n sense codons (sense under all three codes) + a stop of all three codes.
func genORF(r *gen.Rand, n int) string { return genORFLeu(r, n, r.Chance(0.9)) }

func genORFLeu(r *gen.Rand, n int, leu bool) string {
	var sb strings.Builder
	sb.WriteString("ATG")
	if leu {
		sb.WriteString("CTG") // a residue that is no nucleotide code: the translated reference is unambiguously a protein
	}
	for i := 0; i < n; i++ {
		for {
			c := r.Str(3, "ACGT")
			if !stopsAny[c] {
				sb.WriteString(c)
				break
			}
		}
	}
	sb.WriteString(r.PickStr([]string{"TAA", "TAG"}))
	return sb.String()
}

// mutateORF keeps the first codon, substitutes bases at the given rate and inserts / deletes whole codons.
func mutateORF(r *gen.Rand, orf string, rate float64, indels int) string {
	b := []byte(orf)
	for i := 3; i < len(b); i++ {
		if r.Chance(rate) {
			b[i] = r.Pick("ACGT")
		}
	}
	s := string(b)
	for k := 0; k < indels; k++ {
		nc := len(s) / 3
		if nc < 6 {
			break
		}
		p := 3 * r.Range(2, nc-2)
		if r.Bool() {
			s = s[:p] + s[p+3:]
		} else {
			s = s[:p] + r.Str(3, "ACGT") + s[p:]
		}
	}
	return s
}

type seqSpec struct {
	Name  string `json:"name"`
	Seq   string `json:"seq"`
	Exact bool   `json:"exact_copy"`     // contains one of the reference ORFs verbatim exactly once over the strands searched
	Ref   int    `json:"copy_of_ref"`    // which reference the copy was made from
	RC    bool   `json:"reverse_strand"` // the copy sits on the reverse strand
	Start int    `json:"copy_start"`     // where the copy starts (in the strand that holds it)
	Junk  bool   `json:"no_start_codon,omitempty"`
}

type phaseCase struct {
	Orfs      []string  `json:"orfs"` // explicit references (nil => none)
	Seqs      []seqSpec `json:"seqs"`
	Translate bool      `json:"translate"`
	Reverse   bool      `json:"reverse"`
	CutEnd    bool      `json:"cutend"`
	Code      int       `json:"code"`
}

func genPhaseCase(r *gen.Rand, maxSeqs int) phaseCase {
	pc := phaseCase{Translate: r.Chance(0.6), Reverse: r.Bool(), CutEnd: r.Chance(0.4), Code: r.Intn(3)}
	norf := r.PickInt([]int{1, 1, 1, 2, 3})
	for i := 0; i < norf; i++ {
		pc.Orfs = append(pc.Orfs, genORF(r, r.Range(9, 48)))
	}
	n := r.Range(3, maxSeqs)
	for i := 0; i < n; i++ {
		refIdx := 0
		if norf > 1 && r.Chance(0.5) {
			refIdx = r.Intn(norf)
		}
		base := pc.Orfs[refIdx]
		copyS := base
		exact := true
		if r.Chance(0.6) {
			copyS = mutateORF(r, base, r.PickF([]float64{0.01, 0.03, 0.08, 0.15}), r.Intn(3))
			exact = false
		}
		f5 := r.Str(r.PickInt([]int{0, 0, 1, 2, 3, 7, 20, 40}), "ACGT")
		f3 := r.Str(r.PickInt([]int{0, 0, 1, 2, 5, 20, 40}), "ACGT")
		s := f5 + copyS + f3
		sp := seqSpec{Name: "s" + gen.Itoa(i), Start: len(f5), Ref: refIdx}
		if pc.Reverse && r.Chance(0.08) {
			// two copies on opposite strands: a diverged one forward, the reference verbatim on the reverse strand
			// (the verbatim copy is the one the sequence is trimmed at)
			div := mutateORF(r, base, r.PickF([]float64{0.15, 0.25}), 0)
			// ... clearly diverged in nucleotides AND in amino acids under every code (a synonymous copy is as good a
			// hit as the verbatim one in translate mode: which of the two is reported is then not fixed)
			clearly := len(div) == len(base)
			for code := 0; code < 3 && clearly; code++ {
				pa, _ := ref.Translate(base, 0, code)
				pb, _ := ref.Translate(div, 0, code)
				d := 0
				for k := 0; k < len(pa) && k < len(pb); k++ {
					if pa[k] != pb[k] {
						d++
					}
				}
				clearly = len(pa) == len(pb) && d*5 >= len(pa) && d >= 3
			}
			dn := 0
			for k := 0; clearly && k < len(base); k++ {
				if base[k] != div[k] {
					dn++
				}
			}
			if !clearly || dn*8 < len(base) {
				pc.Seqs = append(pc.Seqs, seqSpec{Name: "s" + gen.Itoa(i), Seq: f5 + base + f3, Start: len(f5), Ref: refIdx, Exact: strings.Count(f5+base+f3, base) == 1 && func() bool { x, _ := ref.RevComp(f5 + base + f3); return strings.Count(x, base) == 0 }()})
				continue
			}
			rcBase, _ := ref.RevComp(base)
			sp5 := r.Str(r.Range(3, 15), "CT")
			s = f5 + div + sp5 + rcBase + f3
			// in the reverse complement of s the verbatim copy starts after rc(f3)
			sp = seqSpec{Name: "s" + gen.Itoa(i), Start: len(f3), Ref: refIdx, RC: true}
			fw := strings.Count(s, base)
			rcs, _ := ref.RevComp(s)
			sp.Exact = fw == 0 && strings.Count(rcs, base) == 1
			sp.Seq = s
			pc.Seqs = append(pc.Seqs, sp)
			continue
		}
		if pc.Reverse && r.Chance(0.4) {
			s, _ = ref.RevComp(s)
			sp.RC = true
		}
		if r.Chance(0.15) {
			s = strings.ToLower(s)
			exact = false // case: only the weaker relations
		}
		sp.Seq = s
		if exact {
			fw := strings.Count(strings.ToUpper(s), base)
			rc, _ := ref.RevComp(s)
			rv := strings.Count(strings.ToUpper(rc), base)
			sp.Exact = (fw+rv == 1) || (!pc.Reverse && fw == 1)
			if sp.RC && !pc.Reverse {
				sp.Exact = false
			}
		}
		pc.Seqs = append(pc.Seqs, sp)
	}
	if r.Chance(0.12) {
		// a sequence that aligns with no reference: no start codon on either strand (possible since fix de7c5c4:
		// such a sequence is reported as removed, with its frame 0 translation under the chosen genetic code).
		// Codons that read differently under the three codes are favoured.
		for try := 0; try < 20; try++ {
			var b strings.Builder
			for k := r.Range(6, 20); k > 0; k-- {
				b.WriteString(r.PickStr([]string{"TGA", "AGA", "AGG", "ATA", "CCC", "GGT", "TTA", "ACA", "TGA", "AGA"}))
			}
			j := b.String()
			if strings.Contains(j, "ATG") || strings.Contains(j, "CAT") {
				continue
			}
			pc.Seqs = append(pc.Seqs, seqSpec{Name: "junk", Seq: j, Start: -1, Ref: -1, Junk: true})
			break
		}
	}
	return pc
}

func mkBag(names, seqs []string) align.SeqBag {
	sb := align.NewSeqBag(align.NUCLEOTIDS)
	for i := range names {
		if err := sb.AddSequence(names[i], seqs[i], ""); err != nil {
			panic("harness: " + err.Error())
		}
	}
	return sb
}

func (pc phaseCase) bags() (orfs, seqs align.SeqBag) {
	if pc.Orfs != nil {
		names := make([]string, len(pc.Orfs))
		for i := range names {
			names[i] = "orf" + gen.Itoa(i)
		}
		orfs = mkBag(names, pc.Orfs)
	}
	names := make([]string, len(pc.Seqs))
	ss := make([]string, len(pc.Seqs))
	for i, s := range pc.Seqs {
		names[i], ss[i] = s.Name, s.Seq
	}
	return orfs, mkBag(names, ss)
}

func (pc phaseCase) phaser(cpus int) align.Phaser {
	p := align.NewPhaser()
	p.SetCpus(cpus)
	p.SetReverse(pc.Reverse)
	p.SetCutEnd(pc.CutEnd)
	if err := p.SetTranslate(pc.Translate, pc.Code); err != nil {
		panic("harness: SetTranslate: " + err.Error())
	}
	return p
}

// one received result, flattened
type res struct {
	Name, Nt, Codon, Aa string
	Pos                 int
	Removed             bool
	Err                 string
}

func flatten(ph align.PhasedSequence) res {
	r := res{Pos: ph.Position, Removed: ph.Removed}
	if ph.Err != nil {
		r.Err = ph.Err.Error()
		return r
	}
	if ph.NtSeq != nil {
		r.Name, r.Nt = ph.NtSeq.Name(), ph.NtSeq.Sequence()
	}
	if ph.CodonSeq != nil {
		r.Codon = ph.CodonSeq.Sequence()
	}
	if ph.AaSeq != nil {
		r.Aa = ph.AaSeq.Sequence()
	}
	return r
}

func (r res) key() string {
	return fmt.Sprintf("%s|%d|%s|%s|%s|%v|%s", r.Name, r.Pos, r.Nt, r.Codon, r.Aa, r.Removed, r.Err)
}

func sortedKeys(rs []res) []string {
	k := make([]string, len(rs))
	for i, r := range rs {
		k[i] = r.key()
	}
	sort.Strings(k)
	return k
}

// drain reads the stream to its end (the plain sub-checks rely on the driver's watchdog for a stream
// that never closes; the -race sub-checks use the logical probe of waitClosed).
func drain(ch chan align.PhasedSequence) []res {
	var out []res
	for ph := range ch {
		out = append(out, flatten(ph))
	}
	return out
}

const bothLetters = "ACBRG?-.*DKSHMNVXTWY" // letters that goalign's alphabet detection takes for nucleotides as well

// alphabetFluke tells whether some translated reference and some translated frame of some sequence both consist
// of letters that are also nucleotide codes: the pairwise aligner then picks the nucleotide matrix and reports
// "character not part of alphabet" for the stop. That is an alignment error as the statement allows.
func alphabetFluke(pc phaseCase) bool {
	if !pc.Translate {
		return false
	}
	amb := func(aa string) bool { return strings.Trim(strings.ToUpper(aa), bothLetters) == "" }
	refAmb := false
	for _, o := range pc.Orfs {
		if aa, ok := ref.Translate(o, 0, pc.Code); ok && amb(aa) {
			refAmb = true
		}
	}
	if !refAmb {
		return false
	}
	for _, s := range pc.Seqs {
		cands := []string{s.Seq}
		if pc.Reverse {
			rc, _ := ref.RevComp(s.Seq)
			cands = append(cands, rc)
		}
		for _, S := range cands {
			for f := 0; f < 3; f++ {
				if aa, ok := ref.Translate(S, f, pc.Code); ok && amb(aa) {
					return true
				}
			}
		}
	}
	return false
}

// checkResults applies the relations of the statement to the results of one error-free run.
func checkResults(c *mon.Case, pc phaseCase, rs []res, tag string) {
	fail := func(sig, format string, a ...interface{}) {
		c.Failf(sig, "%s translate=%v reverse=%v cutend=%v code=%d\n%s", tag, pc.Translate, pc.Reverse, pc.CutEnd, pc.Code, fmt.Sprintf(format, a...))
	}
	byName := map[string]seqSpec{}
	for _, s := range pc.Seqs {
		byName[s.Name] = s
	}
	seen := map[string]int{}
	for _, r := range rs {
		if r.Err != "" {
			if alphabetFluke(pc) && strings.Contains(r.Err, "character not part of alphabet") {
				c.Count("alignment-error-reported:ambiguous-alphabet")
				return // "unless an alignment error is reported"
			}
			fail("unexpected-error", "result carries an error although every sequence is long enough: %s", r.Err)
			return
		}
		seen[r.Name]++
		sp, ok := byName[r.Name]
		if !ok {
			fail("unknown-name", "result for %q which is no input sequence", r.Name)
			continue
		}
		// (2) NtSeq is the substring of the input (or of its reverse complement) starting at Position
		cands := []string{sp.Seq}
		if pc.Reverse {
			rc, _ := ref.RevComp(sp.Seq)
			cands = append(cands, rc)
		}
		okSub, strand := false, -1
		for k, S := range cands {
			if r.Pos < 0 || r.Pos > len(S) || r.Pos+len(r.Nt) > len(S) {
				continue
			}
			if S[r.Pos:r.Pos+len(r.Nt)] == r.Nt && (pc.CutEnd || r.Pos+len(r.Nt) == len(S)) {
				okSub, strand = true, k
				break
			}
		}
		if !okSub {
			fail("ntseq-not-the-substring-at-position", "sequence %q = %s\nPosition=%d NtSeq=%s (must be input[Position:%s] on the forward%s strand)", r.Name, sp.Seq, r.Pos, r.Nt,
				map[bool]string{true: "end of the aligned part", false: "end"}[pc.CutEnd], map[bool]string{true: " or reverse", false: ""}[pc.Reverse])
			continue
		}
		// (3) CodonSeq is NtSeq minus 0..2 leading bases (0 in translate mode) and translates to AaSeq
		off := len(r.Nt) - len(r.Codon)
		if off < 0 || off > 2 || (pc.Translate && off != 0) || r.Nt[off:] != r.Codon {
			fail("codonseq-out-of-frame", "sequence %q NtSeq=%s CodonSeq=%s", r.Name, r.Nt, r.Codon)
			continue
		}
		want, okT := ref.Translate(r.Codon, 0, pc.Code)
		if !okT {
			want = ""
		}
		if r.Aa != want {
			fail("aaseq-is-not-the-translation-of-codonseq", "sequence %q CodonSeq=%s\ntranslation=%s\nAaSeq      =%s", r.Name, r.Codon, want, r.Aa)
			continue
		}
		// (4) exact single copy => trimmed exactly at the copy's start
		if sp.Exact {
			wantStrand := 0
			if sp.RC {
				wantStrand = 1
			}
			_ = strand
			S := cands[wantStrand]
			if r.Pos != sp.Start || r.Pos+len(r.Nt) > len(S) || S[r.Pos:r.Pos+len(r.Nt)] != r.Nt {
				fail("exact-copy-not-trimmed-at-its-start", "sequence %q = %s holds the reference ORF %s verbatim once at %d (reverse strand: %v) but Position=%d NtSeq=%s", r.Name, sp.Seq, pc.Orfs[sp.Ref], sp.Start, sp.RC, r.Pos, r.Nt)
				continue
			}
			// trimmed at the ATG of the copy: the codon sequence starts there too (nothing to skip to be in frame)
			if off != 0 {
				fail("exact-copy-codonseq-out-of-frame", "sequence %q holds the reference ORF verbatim and is trimmed at its start, but CodonSeq skips %d base(s): NtSeq=%s CodonSeq=%s", r.Name, off, r.Nt, r.Codon)
				continue
			}
			c.Count("exact-copy-position-checked")
		}
		if r.Removed {
			c.Count("result-flagged-removed")
		}
	}
	// (1) exactly one result per input
	for _, s := range pc.Seqs {
		if seen[s.Name] != 1 {
			fail("not-one-result-per-sequence", "sequence %q has %d results (%d results for %d inputs)", s.Name, seen[s.Name], len(rs), len(pc.Seqs))
			return
		}
	}
	if len(rs) != len(pc.Seqs) {
		fail("not-one-result-per-sequence", "%d results for %d inputs", len(rs), len(pc.Seqs))
	}
}

func snapshot(sb align.SeqBag) string {
	if sb == nil {
		return "<nil>"
	}
	return fmt.Sprintf("%d|%s", sb.Alphabet(), h.Snap(sb).Key())
}

func runPhase(c *mon.Case) {
	r := c.R
	maxSeqs := 12
	if r.Chance(0.1) {
		maxSeqs = 40
	}
	pc := genPhaseCase(r, maxSeqs)
	c.Input(pc)
	orfs, seqs := pc.bags()
	so, ss := snapshot(orfs), snapshot(seqs)
	cpusA, cpusB := 1, r.PickInt([]int{2, 3, 4, 8})
	ch, err := pc.phaser(cpusA).Phase(orfs, seqs)
	if err != nil {
		c.Failf("phase-error", "Phase: %v", err)
		return
	}
	ra := drain(ch)
	checkResults(c, pc, ra, "cpus=1")
	ch, err = pc.phaser(cpusB).Phase(orfs, seqs)
	if err != nil {
		c.Failf("phase-error", "Phase: %v", err)
		return
	}
	rb := drain(ch)
	checkResults(c, pc, rb, fmt.Sprintf("cpus=%d", cpusB))
	ka, kb := sortedKeys(ra), sortedKeys(rb)
	hasErr := false
	for _, x := range append(append([]res{}, ra...), rb...) {
		if x.Err != "" {
			hasErr = true
		}
	}
	if hasErr {
		// an alignment error was reported (accepted or reported by checkResults above): the statement only fixes the
		// result set "when no error occurs"; what was delivered before the error depends on the schedule
		c.Count("phase:run-with-reported-error")
	} else if strings.Join(ka, "\n") != strings.Join(kb, "\n") {
		c.Failf("result-set-depends-on-workers", "cpus=1 and cpus=%d give different result sets:\n%s\n---\n%s", cpusB, strings.Join(ka, "\n"), strings.Join(kb, "\n"))
	}
	if snapshot(orfs) != so || snapshot(seqs) != ss {
		c.Failf("input-modified", "Phase changed its input: references %v, sequences %v", snapshot(orfs) != so, snapshot(seqs) != ss)
	}
	// one phaser object serving several sets in a row (a caller phasing the files of a directory): the set under
	// test, then a set it reports an error for (a 4 nucleotide read cannot be translated), then the set under
	// test again - which must come out as it did the first time
	if !hasErr && !c.Failed() && c.R.Chance(0.3) {
		ph := pc.phaser(cpusB)
		stuck := ""
		runOn := func(sq align.SeqBag) ([]res, error) {
			if stuck != "" {
				return nil, nil
			}
			ch, err := ph.Phase(orfs, sq)
			if err != nil {
				return nil, err
			}
			// the set in between makes Phase report an error: read with the logical deadlock probe (a stream that is
			// never closed on an error path must not cost the wall-clock watchdog)
			var out []res
			for {
				tm := time.NewTimer(300 * time.Millisecond)
				select {
				case x, ok := <-ch:
					tm.Stop()
					if !ok {
						return out, nil
					}
					out = append(out, flatten(x))
					continue
				case <-tm.C:
				}
				buf := make([]byte, 1<<20)
				dump := string(buf[:runtime.Stack(buf, true)])
				if st, why, dump := stuckTwice(dump); st {
					select {
					case x, ok := <-ch:
						if !ok {
							return out, nil
						}
						out = append(out, flatten(x))
						continue
					default:
					}
					stuck = why + "\n" + head(dump, 2500)
					return out, nil
				}
			}
		}
		r1, e1 := runOn(seqs)
		bad := mkBag([]string{"short", pc.Seqs[0].Name}, []string{"ATGA", pc.Seqs[0].Seq})
		between := "a set holding a 4 nucleotide read"
		switch c.R.Intn(3) {
		case 0: // an empty set (a file without sequence): nothing to phase, nothing to remember
			bad = align.NewSeqBag(align.NUCLEOTIDS)
			between = "an empty set"
		case 1: // a single sequence (fewer sequences than workers)
			bad = mkBag([]string{pc.Seqs[0].Name}, []string{pc.Seqs[0].Seq})
			between = "a set of one sequence"
		}
		c.Count("phaser-reuse:between=" + between)
		r2, e2 := runOn(bad)
		refused := e2 != nil
		for _, x := range r2 {
			refused = refused || x.Err != ""
		}
		r3, e3 := runOn(seqs)
		k1, k3 := sortedKeys(r1), sortedKeys(r3)
		anyErr := e1 != nil || e3 != nil
		for _, x := range append(append([]res{}, r1...), r3...) {
			anyErr = anyErr || x.Err != ""
		}
		switch {
		case stuck != "":
			c.Failf("phaser-reuse:stream-never-closed", "one phaser object, cpus=%d, translate=%v, set / %s / set again: %s", cpusB, pc.Translate, between, stuck)
		case anyErr:
			c.Count("phaser-reuse:run-with-reported-error")
		case strings.Join(k1, "\n") != strings.Join(kb, "\n") || strings.Join(k3, "\n") != strings.Join(kb, "\n"):
			c.Failf("phaser-reuse:result-set-differs", "one phaser object, cpus=%d, translate=%v: the set gives %d results on a fresh object, %d on the first call of a re-used object and %d after a call on "+between+" (refused: %v)\nfresh:\n%s\n---\nthird call:\n%s", cpusB, pc.Translate, len(kb), len(k1), len(k3), refused, strings.Join(kb, "\n"), strings.Join(k3, "\n"))
		default:
			c.Count(fmt.Sprintf("phaser-reuse:refused-set-in-between=%v", refused))
		}
	}
	c.Count(fmt.Sprintf("translate:%v", pc.Translate))
	c.Count(fmt.Sprintf("reverse:%v", pc.Reverse))
	c.Count(fmt.Sprintf("cutend:%v", pc.CutEnd))
	c.Count(fmt.Sprintf("code:%d", pc.Code))
	c.Count(fmt.Sprintf("refs:%d", len(pc.Orfs)))
	c.Add("results-checked", len(ra)+len(rb))
	c.NonTrivial(fmt.Sprintf("%v", pc))
	if len(ra) > 0 {
		c.Note("first result: %+v", ra[0])
	}
}

// ---------------------------------------------------------------- longest ORF

// orfsOf lists every ATG-to-first-in-frame-stop ORF [start,end) of s (case folded, U as T).
func orfsOf(s string) (out [][2]int) {
	u := strings.ReplaceAll(strings.ToUpper(s), "U", "T")
	for p := 0; p+3 <= len(u); p++ {
		if u[p:p+3] != "ATG" {
			continue
		}
		for q := p + 3; q+3 <= len(u); q += 3 {
			if cd := u[q : q+3]; cd == "TAA" || cd == "TAG" || cd == "TGA" {
				out = append(out, [2]int{p, q + 3})
				break
			}
		}
	}
	return
}

func longest(os [][2]int) int {
	m := -1
	for _, o := range os {
		if o[1]-o[0] > m {
			m = o[1] - o[0]
		}
	}
	return m
}

var orfPieces = []string{"ATG", "ATG", "ATG", "TAA", "TAG", "TGA", "A", "C", "G", "T", "CC", "GCA", "AT", "GA", "TGATG", "ATGA", "AATGC", "CATGG", "CAT", "TCA", "TTA", "CTA"}

func genOrfSeq(r *gen.Rand) string {
	var sb strings.Builder
	switch r.Intn(4) {
	case 0: // pieces rich in starts and stops: overlapping frames
		for n := r.Range(1, 30); n > 0; n-- {
			sb.WriteString(r.PickStr(orfPieces))
		}
	case 1: // a short ORF in one frame covering the ATG of a longer one in another frame
		inner := genORF(r, r.Range(8, 30))
		// "CTAACCCCTAAC" holds no stop in frame but one in each of the two other frames
		inner = inner[:3*r.Range(1, 3)] + "CTAACCCCTAAC" + inner[3*3:]
		sb.WriteString(r.Str(r.Intn(5), "CT"))
		sb.WriteString("ATG" + r.PickStr([]string{"C", "CC", "CCCC", "CCCCC", "GC"}))
		sb.WriteString(inner)
		sb.WriteString(r.Str(r.Intn(6), "ACGT"))
	case 2:
		sb.WriteString(r.Str(r.Range(0, 150), "ACGT"))
	default:
		sb.WriteString(r.Str(r.Range(3, 90), "ATGATGAATC"))
	}
	s := sb.String()
	if r.Chance(0.15) {
		s = strings.ToLower(s)
	}
	if r.Chance(0.1) {
		s = strings.ReplaceAll(strings.ReplaceAll(s, "T", "U"), "t", "u") // RNA in either case
	}
	return s
}

func runOrf(c *mon.Case) {
	r := c.R
	n := r.Range(1, 6)
	names := make([]string, n)
	ss := make([]string, n)
	for i := range ss {
		names[i] = "s" + gen.Itoa(i)
		ss[i] = genOrfSeq(r)
	}
	reverse := r.Bool()
	c.Input(map[string]interface{}{"seqs": ss, "reverse": reverse})
	bag := mkBag(names, ss)
	before := snapshot(bag)
	// per sequence
	global := -1
	overlapping := false
	for i, s := range ss {
		q, _ := bag.Sequence(i)
		st, en := q.LongestORF()
		all := orfsOf(s)
		m := longest(all)
		if m > global {
			global = m
		}
		if reverse {
			rc, ok := ref.RevComp(strings.ReplaceAll(strings.ReplaceAll(s, "U", "T"), "u", "t"))
			if ok {
				if m2 := longest(orfsOf(rc)); m2 > global {
					global = m2
				}
			}
		}
		for _, a := range all {
			for _, b := range all {
				if a[0] < b[0] && b[0] < a[1] && (b[0]-a[0])%3 != 0 {
					overlapping = true
					if b[1]-b[0] == m && a[1]-a[0] < m {
						c.Count("orf:longest-starts-inside-a-shorter-orf-of-another-frame")
					}
				}
			}
		}
		if m < 0 {
			if st != -1 || en != -1 {
				c.Failf("Sequence.LongestORF:found-where-none-exists", "sequence %s: returned (%d,%d), no ATG...stop exists", s, st, en)
			}
			continue
		}
		valid := false
		for _, o := range all {
			if o[0] == st && o[1] == en {
				valid = true
			}
		}
		if !valid {
			c.Failf("Sequence.LongestORF:not-an-orf", "sequence %s: returned (%d,%d) which is no ATG-to-first-in-frame-stop ORF (ORFs: %v)", s, st, en, all)
		} else if en-st != m {
			c.Failf("Sequence.LongestORF:not-the-longest", "sequence %s: returned (%d,%d) of length %d, the longest ORF has length %d (ORFs: %v)", s, st, en, en-st, m, all)
		}
		c.Count("Sequence.LongestORF")
	}
	if overlapping {
		c.Count("orf:overlapping-frames")
	}
	orf, err := bag.LongestORF(reverse)
	if global < 0 {
		if err == nil {
			c.Failf("SeqBag.LongestORF:found-where-none-exists", "returned %s although no sequence holds an ORF", orf.Sequence())
		}
		c.Count("orf:none")
	} else if err != nil {
		c.Failf("SeqBag.LongestORF:error", "error %v although the longest ORF has length %d", err, global)
	} else {
		o := orf.Sequence()
		src := ""
		for i, nm := range names {
			if nm == orf.Name() {
				src = ss[i]
			}
		}
		found := false
		cands := []string{src}
		if reverse {
			if rc, ok := ref.RevComp(src); ok {
				cands = append(cands, rc)
			} else if rc, ok := ref.RevComp(strings.ReplaceAll(strings.ReplaceAll(src, "U", "T"), "u", "t")); ok {
				cands = append(cands, rc)
			}
		}
		fold := func(x string) string { return strings.ReplaceAll(strings.ToUpper(x), "U", "T") }
		for _, S := range cands {
			for _, oo := range orfsOf(S) {
				if fold(S[oo[0]:oo[1]]) == fold(o) {
					found = true
				}
			}
		}
		if !found {
			c.Failf("SeqBag.LongestORF:not-an-orf-of-the-named-sequence", "returned %q = %s which is no ATG-to-first-in-frame-stop ORF of that sequence (%s)", orf.Name(), o, src)
		} else if len(o) != global {
			c.Failf("SeqBag.LongestORF:not-the-longest", "returned an ORF of length %d (%s), a sequence holds one of length %d; sequences %q reverse=%v", len(o), o, global, ss, reverse)
		}
		c.Count("SeqBag.LongestORF")
	}
	if snapshot(bag) != before {
		c.Failf("LongestORF:input-modified", "the sequence set changed")
	}
	if global >= 0 {
		c.NonTrivial(strings.Join(ss, "/"), fmt.Sprint(reverse))
	}
	c.Count(fmt.Sprintf("orf:reverse:%v", reverse))
}

// Phase without reference == Phase with the longest ORF as explicit reference
func runNoRef(c *mon.Case) {
	r := c.R
	pc := genPhaseCase(r, 10)
	// make the reference ORF the longest ORF of the set by construction is not needed: whatever LongestORF returns is used
	c.Input(pc)
	_, seqs := pc.bags()
	ss := snapshot(seqs)
	// the reference must be a longest ORF of the set
	global := -1
	for _, s := range pc.Seqs {
		if m := longest(orfsOf(s.Seq)); m > global {
			global = m
		}
		if pc.Reverse {
			rc, _ := ref.RevComp(s.Seq)
			if m := longest(orfsOf(rc)); m > global {
				global = m
			}
		}
	}
	orf, err := seqs.LongestORF(pc.Reverse)
	if global < 0 {
		// every copy lost its in-frame stop by mutation: there is no ORF at all, an error is the right answer
		if err == nil {
			c.Failf("SeqBag.LongestORF:found-where-none-exists", "returned %s although no sequence holds an ORF", orf.Sequence())
		}
		c.Count("noref:no-orf-in-the-set")
		return
	}
	if err != nil {
		c.Failf("noref:LongestORF-error", "%v although a sequence holds an ORF of length %d", err, global)
		return
	}
	if orf.Length() != global {
		c.Failf("SeqBag.LongestORF:not-the-longest", "reference of length %d, a sequence holds an ORF of length %d", orf.Length(), global)
	}
	ch, err := pc.phaser(r.PickInt([]int{1, 2, 4})).Phase(nil, seqs)
	if err != nil {
		c.Failf("phase-error", "Phase(nil): %v", err)
		return
	}
	ra := drain(ch)
	ob := mkBag([]string{orf.Name()}, []string{orf.Sequence()})
	ch, err = pc.phaser(1).Phase(ob, seqs)
	if err != nil {
		c.Failf("phase-error", "Phase(orf): %v", err)
		return
	}
	rb := drain(ch)
	pc2 := pc
	pc2.Orfs = []string{strings.ToUpper(orf.Sequence())}
	for i := range pc2.Seqs {
		pc2.Seqs[i].Exact = false
	}
	checkResults(c, pc2, ra, "no reference")
	reported := false
	for _, x := range append(append([]res{}, ra...), rb...) {
		reported = reported || x.Err != ""
	}
	if reported {
		// "when no error occurs the set of results does not depend on ...": with a reported alignment error what was
		// delivered before it depends on the schedule (false alarm met at thorough seed 2, noref case 16833)
		c.Count("noref:run-with-reported-error")
	} else if strings.Join(sortedKeys(ra), "\n") != strings.Join(sortedKeys(rb), "\n") {
		c.Failf("noref:differs-from-explicit-longest-orf", "Phase(nil, seqs) and Phase(longest ORF, seqs) differ:\n%s\n---\n%s", strings.Join(sortedKeys(ra), "\n"), strings.Join(sortedKeys(rb), "\n"))
	}
	if snapshot(seqs) != ss {
		c.Failf("input-modified", "Phase(nil) changed the sequences")
	}
	c.Count("noref")
	c.NonTrivial(fmt.Sprintf("%v", pc))
}

// ---------------------------------------------------------------- schedules and faults (-race build)

type event struct {
	n    int64
	kind string // dispatch, tr.enter, tr.exit, cl.enter, res, closed
	name string
	err  bool
}

type recorder struct {
	mu       sync.Mutex
	events   []event
	seq      atomic.Int64
	inflight atomic.Int64
}

func (rc *recorder) add(kind, name string, err bool) int64 {
	n := rc.seq.Add(1)
	rc.mu.Lock()
	rc.events = append(rc.events, event{n, kind, name, err})
	rc.mu.Unlock()
	return n
}

type plan struct {
	Seed   uint64 `json:"seed"`
	Mode   int    `json:"mode"`    // 0 none, 1 gosched bursts, 2 sleeps, 3 mixed
	Buf    int    `json:"chanbuf"` // buffer of the wrapper's sequence channel
	FailTr int    `json:"fail_translate_call"`
	FailCl int    `json:"fail_clone_call"` // the k-th Clone returns a sequence whose Translate fails (Clone itself cannot fail)
}

var errInjected = errors.New("injected translate failure")

func perturb(pl plan, n int64) {
	if pl.Mode == 0 {
		return
	}
	x := gen.New(pl.Seed ^ uint64(n)*0x9e3779b97f4a7c15).U64()
	switch pl.Mode {
	case 1:
		for k := uint64(0); k < x%8; k++ {
			runtime.Gosched()
		}
	case 2:
		if x%4 == 0 {
			time.Sleep(time.Duration(50+x%400) * time.Microsecond)
		}
	case 3:
		if x%3 == 0 {
			runtime.Gosched()
		} else if x%7 == 0 {
			time.Sleep(time.Duration(50+x%1500) * time.Microsecond)
		}
	}
}

type shared struct {
	rec *recorder
	pl  plan
	nTr atomic.Int64
	nCl atomic.Int64
}

// wseq wraps a sequence handed to the phaser's workers.
type alignSeq = align.Sequence

type wseq struct {
	alignSeq
	sh   *shared
	fail bool // Translate always fails (used for clones chosen by the plan)
}

func (w *wseq) Translate(phase, code int) (align.Sequence, error) {
	w.sh.rec.inflight.Add(1)
	defer w.sh.rec.inflight.Add(-1)
	k := w.sh.nTr.Add(1)
	n := w.sh.rec.add("tr.enter", w.Name(), false)
	perturb(w.sh.pl, n)
	if w.fail || w.sh.pl.FailTr == int(k) {
		w.sh.rec.add("tr.exit", w.Name(), true)
		return nil, errInjected
	}
	s, err := w.alignSeq.Translate(phase, code)
	perturb(w.sh.pl, n+1)
	w.sh.rec.add("tr.exit", w.Name(), err != nil)
	return s, err
}

func (w *wseq) Clone() align.Sequence {
	k := w.sh.nCl.Add(1)
	n := w.sh.rec.add("cl.enter", w.Name(), false)
	perturb(w.sh.pl, n)
	cl := w.alignSeq.Clone()
	if w.sh.pl.FailCl == int(k) {
		return &wseq{alignSeq: cl, sh: w.sh, fail: true}
	}
	return cl
}

// wbag wraps the sequence set: its SequencesChan producer perturbs the schedule and records dispatches.
type wbag struct {
	align.SeqBag
	sh *shared
}

func (w *wbag) SequencesChan() chan align.Sequence {
	ch := make(chan align.Sequence, w.sh.pl.Buf)
	go func() {
		for _, s := range w.SeqBag.Sequences() {
			n := w.sh.rec.add("dispatch", s.Name(), false)
			perturb(w.sh.pl, n)
			ch <- &wseq{alignSeq: s, sh: w.sh}
		}
		close(ch)
	}()
	return ch
}

var reGoroutine = regexp.MustCompile(`(?m)^goroutine \d+ \[([^\]]+)\]:`)

// classifyStuck: the consumer waits for the stream while no goroutine started by Phase (nor the producer feeding it) can run.
func classifyStuck(dump string) (bool, string) {
	workers, blocked := 0, 0
	for _, b := range strings.Split(dump, "\n\n") {
		m := reGoroutine.FindStringSubmatch(b)
		if m == nil {
			continue
		}
		// the goroutines started by Phase, and the wrapper's own sequence producer (it may be sleeping by plan)
		// ... and the goroutine in which Phase itself runs, as long as it has not returned
		if !strings.Contains(b, "align.(*phaser).Phase.func") && !strings.Contains(b, "(*wbag).SequencesChan.func") && !strings.Contains(b, "align.(*phaser).Phase(") {
			continue
		}
		workers++
		st := m[1]
		if strings.HasPrefix(st, "chan send") || strings.HasPrefix(st, "chan receive") || strings.HasPrefix(st, "semacquire") || strings.HasPrefix(st, "sync.WaitGroup") || strings.HasPrefix(st, "select") || strings.HasPrefix(st, "sync.Mutex") {
			blocked++
		}
	}
	if workers == blocked {
		return true, fmt.Sprintf("result stream not closed; %d goroutine(s) started by Phase remain, all blocked", workers)
	}
	return false, ""
}

// stuckTwice: a deadlock is a state that lasts. The goroutines are looked at a second time, 300 ms and a burst of
// scheduler yields later: only two dumps that both show every goroutine of Phase blocked (or gone) count. One look
// alone raised a false alarm once in two million cases on the loaded machine (thorough, seed 2: a transitional
// state between the last worker's exit and the closing goroutine's wake-up).
func stuckTwice(first string) (bool, string, string) {
	st, why := classifyStuck(first)
	if !st {
		return false, "", first
	}
	for i := 0; i < 200; i++ {
		runtime.Gosched()
	}
	time.Sleep(300 * time.Millisecond)
	buf := make([]byte, 1<<20)
	dump := string(buf[:runtime.Stack(buf, true)])
	st2, why2 := classifyStuck(dump)
	if !st2 {
		return false, "", dump
	}
	_ = why
	return true, why2, dump
}

type schedResult struct {
	rs     []res
	closed bool
	stuck  bool
	why    string
	dump   string
	rec    *recorder
	err    error
}

// runScheduled runs Phase through the wrappers; the consumer reads to the end of the stream with a
// logical deadlock probe (no wrapper activity and nothing received for 2000 yields + 100 ms => goroutine dump).
func runScheduled(pc phaseCase, cpus int, pl plan) schedResult {
	rec := &recorder{}
	sh := &shared{rec: rec, pl: pl}
	orfs, seqs := pc.bags()
	out := schedResult{rec: rec}
	// Phase itself runs in a goroutine: a Phase that never hands the stream back (e.g. waiting for its workers
	// before anybody can read their results) is probed like a stream that never closes
	type phaseRet struct {
		ch  chan align.PhasedSequence
		err error
	}
	done := make(chan phaseRet, 1)
	go func() {
		ch, err := pc.phaser(cpus).Phase(orfs, &wbag{SeqBag: seqs, sh: sh})
		done <- phaseRet{ch, err}
	}()
	var ch chan align.PhasedSequence
	for ch == nil {
		var ret *phaseRet
		tm := time.NewTimer(300 * time.Millisecond)
		select {
		case r := <-done:
			tm.Stop()
			ret = &r
		case <-tm.C:
			before := rec.seq.Load()
			buf := make([]byte, 1<<20)
			dump := string(buf[:runtime.Stack(buf, true)])
			st, why, dump := stuckTwice(dump)
			if !st || rec.inflight.Load() != 0 || rec.seq.Load() != before {
				continue
			}
			select {
			case r := <-done:
				ret = &r
			default:
				out.stuck, out.why, out.dump = true, "Phase does not return: "+why, dump
				return out
			}
		}
		if ret.err != nil {
			out.err = ret.err
			return out
		}
		ch = ret.ch
		if ch == nil {
			out.err = fmt.Errorf("Phase returned a nil channel and no error")
			return out
		}
	}
	recv := func(ph align.PhasedSequence, ok bool) bool { // returns true when the stream is closed
		if !ok {
			rec.add("closed", "", false)
			out.closed = true
			return true
		}
		r := flatten(ph)
		rec.add("res", r.Name, r.Err != "")
		out.rs = append(out.rs, r)
		return false
	}
	for {
		// the timer only decides WHEN the goroutines are looked at, never the verdict
		tm := time.NewTimer(300 * time.Millisecond)
		select {
		case ph, ok := <-ch:
			tm.Stop()
			if recv(ph, ok) {
				return out
			}
			continue
		case <-tm.C:
		}
		before := rec.seq.Load()
		buf := make([]byte, 1<<20)
		dump := string(buf[:runtime.Stack(buf, true)])
		st, why, dump := stuckTwice(dump)
		if !st || rec.inflight.Load() != 0 || rec.seq.Load() != before {
			continue
		}
		// every goroutine started by Phase is blocked or gone: whatever they did is already in the channel
		select {
		case ph, ok := <-ch:
			if recv(ph, ok) {
				return out
			}
			continue
		default:
		}
		out.stuck, out.why, out.dump = true, why, dump
		return out
	}
}

// checkHistory is the offline checker over the recorded events.
func checkHistory(rec *recorder, n int, expectAll bool) (msg, order string) {
	rec.mu.Lock()
	evs := append([]event(nil), rec.events...)
	rec.mu.Unlock()
	sort.Slice(evs, func(i, j int) bool { return evs[i].n < evs[j].n })
	disp, got := map[string]int{}, map[string]int{}
	closedAt, lastRes := int64(-1), int64(-1)
	nerr := 0
	var ord []string
	for _, e := range evs {
		switch e.kind {
		case "dispatch":
			disp[e.name]++
		case "res":
			if e.err {
				nerr++
			} else {
				got[e.name]++
				ord = append(ord, e.name)
			}
			lastRes = e.n
			if closedAt >= 0 {
				return "a result was received after the stream was closed", ""
			}
		case "closed":
			closedAt = e.n
		}
	}
	if closedAt < 0 {
		return "the stream was never closed", ""
	}
	_ = lastRes
	for nm, k := range got {
		if k > 1 {
			return fmt.Sprintf("sequence %q produced %d results", nm, k), ""
		}
		if disp[nm] == 0 {
			return fmt.Sprintf("a result for %q which was never dispatched", nm), ""
		}
	}
	if expectAll {
		if nerr > 0 {
			return fmt.Sprintf("%d error result(s) in a run without fault", nerr), ""
		}
		if len(got) != n {
			return fmt.Sprintf("%d distinct results for %d sequences (a sequence was lost)", len(got), n), ""
		}
	}
	return "", strings.Join(ord, ",")
}

var cpuChoices = []int{1, 2, 3, 8, 16, 32}
var procChoices = []int{1, 2, 4, 16}

func runSched(c *mon.Case) {
	r := c.R
	pc := genPhaseCase(r, r.PickInt([]int{6, 12, 30, 70}))
	for alphabetFluke(pc) { // an alignment error would be a legitimate outcome: not what this sub-check is about
		pc = genPhaseCase(r, 12)
	}
	cpus := cpuChoices[c.Idx%len(cpuChoices)]
	procs := procChoices[(c.Idx/len(cpuChoices))%len(procChoices)]
	pl := plan{Seed: r.U64(), Mode: r.Intn(4), Buf: r.PickInt([]int{0, 1, 50})}
	c.Input(map[string]interface{}{"case": pc, "cpus": cpus, "gomaxprocs": procs, "plan": pl})
	old := runtime.GOMAXPROCS(procs)
	defer runtime.GOMAXPROCS(old)
	base := runScheduled(pc, 1, plan{Buf: 50})
	if base.err != nil || base.stuck {
		c.Failf("sched:baseline", "single worker run: err=%v stuck=%v %s", base.err, base.stuck, base.why)
		return
	}
	checkResults(c, pc, base.rs, "cpus=1 (wrapped)")
	got := runScheduled(pc, cpus, pl)
	if got.err != nil {
		c.Failf("phase-error", "Phase: %v", got.err)
		return
	}
	if got.stuck {
		c.Failf("sched:stream-never-closed", "cpus=%d GOMAXPROCS=%d plan=%+v: %s\n%s", cpus, procs, pl, got.why, head(got.dump, 3000))
		return
	}
	msg, order := checkHistory(got.rec, len(pc.Seqs), true)
	if msg != "" {
		c.Failf("sched:history", "cpus=%d GOMAXPROCS=%d plan=%+v: %s", cpus, procs, pl, msg)
		return
	}
	ka, kb := sortedKeys(base.rs), sortedKeys(got.rs)
	if strings.Join(ka, "\n") != strings.Join(kb, "\n") {
		c.Failf("result-set-depends-on-workers", "cpus=1 and cpus=%d (GOMAXPROCS=%d, plan=%+v) give different result sets:\n%s\n---\n%s", cpus, procs, pl, strings.Join(ka, "\n"), strings.Join(kb, "\n"))
	}
	checkResults(c, pc, got.rs, fmt.Sprintf("cpus=%d (wrapped)", cpus))
	c.Count(fmt.Sprintf("sched:cpus:%d", cpus))
	c.Count(fmt.Sprintf("sched:gomaxprocs:%d", procs))
	c.Count(fmt.Sprintf("sched:mode:%d", pl.Mode))
	c.Add("sched:events-recorded", int(got.rec.seq.Load()))
	c.NonTrivial("order", fmt.Sprint(cpus), order) // distinct arrival orders observed
	inOrder := true
	names := strings.Split(order, ",")
	for i := 1; i < len(names); i++ {
		if len(names[i]) < len(names[i-1]) || (len(names[i]) == len(names[i-1]) && names[i] < names[i-1]) {
			inOrder = false
		}
	}
	if !inOrder {
		c.Count("sched:arrival-order-differs-from-input-order")
	}
	c.Note("cpus=%d GOMAXPROCS=%d arrival order %s", cpus, procs, head(order, 200))
}

func head(s string, n int) string {
	if len(s) > n {
		return s[:n] + "…"
	}
	return s
}

// faults: fixed small sets; every fault position k is enumerated through the case index.
func runFaults(c *mon.Case) {
	r := c.R
	kind := c.Idx % 3 // 0: a too short sequence, 1: k-th Translate fails, 2: k-th Clone yields a failing sequence
	n := 3 + (c.Idx/3)%6
	k := 1 + (c.Idx/18)%(3*n)
	pc := phaseCase{Translate: true, Reverse: kind == 2 || r.Bool(), CutEnd: r.Bool(), Code: r.Intn(3)}
	pc.Orfs = []string{genORFLeu(r, r.Range(9, 20), true)}
	for i := 0; i < n; i++ {
		pc.Seqs = append(pc.Seqs, seqSpec{Name: "s" + gen.Itoa(i), Seq: r.Str(r.Intn(10), "ACGT") + mutateORF(r, pc.Orfs[0], 0.05, 1) + r.Str(r.Intn(10), "ACGT")})
	}
	cpus := []int{1, 2, 3, 8}[r.Intn(4)]
	pl := plan{Seed: r.U64(), Mode: r.Intn(4), Buf: r.PickInt([]int{0, 1, 50})}
	switch kind {
	case 0:
		pc.Translate = r.Chance(0.7)
		short := r.PickStr([]string{"AC", "ACG", "ACGT", "A"})
		if !pc.Translate {
			short = r.PickStr([]string{"A", "AC"}) // nt mode: the codon sequence cannot be translated
		}
		pc.Seqs[(k-1)%n].Seq = short
	case 1:
		pl.FailTr = k
	case 2:
		pl.FailCl = 1 + (k-1)%n
	}
	c.Input(map[string]interface{}{"case": pc, "cpus": cpus, "plan": pl, "kind": kind})
	old := runtime.GOMAXPROCS([]int{1, 2, 4, 16}[r.Intn(4)])
	defer runtime.GOMAXPROCS(old)
	got := runScheduled(pc, cpus, pl)
	if got.err != nil {
		c.Failf("phase-error", "Phase: %v", got.err)
		return
	}
	if got.stuck {
		c.Failf("faults:stream-never-closed", "kind=%d k=%d cpus=%d plan=%+v: %s\n%s", kind, k, cpus, pl, got.why, head(got.dump, 3000))
		return
	}
	msg, _ := checkHistory(got.rec, n, false)
	if msg != "" {
		c.Failf("faults:history", "kind=%d k=%d cpus=%d plan=%+v: %s", kind, k, cpus, pl, msg)
		return
	}
	nerr := 0
	for _, x := range got.rs {
		if x.Err != "" {
			nerr++
		}
	}
	// was the fault actually reached? (a Translate / Clone call number beyond the calls made is no fault)
	reached := true
	if kind == 1 {
		reached = got.rec.countKind("tr.exit", true) > 0
	} else if kind == 2 {
		reached = got.rec.countKind("tr.exit", true) > 0
	}
	if reached && nerr == 0 {
		c.Failf("faults:error-not-delivered", "kind=%d k=%d cpus=%d plan=%+v: a failure occurred but no result of the stream carries an error (%d results for %d sequences)", kind, k, cpus, pl, len(got.rs), n)
		return
	}
	if !reached {
		// no fault happened: the run must be complete
		if msg, _ := checkHistory(got.rec, n, true); msg != "" {
			c.Failf("faults:history", "no fault reached, kind=%d k=%d: %s", kind, k, msg)
		}
		c.Count("faults:position-beyond-the-calls-made")
	} else {
		c.Count(fmt.Sprintf("faults:kind:%d", kind))
		c.NonTrivial(fmt.Sprint(kind, n, k, cpus))
	}
}

func (rc *recorder) countKind(kind string, err bool) int {
	rc.mu.Lock()
	defer rc.mu.Unlock()
	n := 0
	for _, e := range rc.events {
		if e.kind == kind && e.err == err {
			n++
		}
	}
	return n
}

// fixed witnesses
func runWitness(c *mon.Case) {
	switch c.Idx {
	case 0: // defect #22: a short ORF hides a longer one starting inside it in another frame
		s := "ATGAATGAATAACCCCCCCCCCTAG"
		c.Input(map[string]interface{}{"seq": s})
		q := align.NewSequence("w", []uint8(s), "")
		st, en := q.LongestORF()
		m := longest(orfsOf(s))
		if en-st != m {
			c.Failf("Sequence.LongestORF:not-the-longest", "sequence %s: returned (%d,%d), the longest ORF has length %d (ORFs %v)", s, st, en, m, orfsOf(s))
		}
		c.NonTrivial(s)
	case 1: // an exact copy with flanks, all options off
		orf := "ATGGCTGCTAAAGGTTTCCCATGGGACGAATAA"
		pc := phaseCase{Orfs: []string{orf}, Translate: true, Seqs: []seqSpec{{Name: "s0", Seq: "CC" + orf + "GGA", Exact: true, Start: 2}, {Name: "s1", Seq: orf, Exact: true, Start: 0}, {Name: "s2", Seq: "ACGTA" + orf, Exact: true, Start: 5}}}
		c.Input(pc)
		o, s := pc.bags()
		ch, err := pc.phaser(2).Phase(o, s)
		if err != nil {
			c.Failf("phase-error", "%v", err)
			return
		}
		checkResults(c, pc, drain(ch), "witness")
		c.NonTrivial("exact")
	case 2: // same in nucleotide mode with reverse strand and cut ends
		orf := "ATGGCTGCTAAAGGTTTCCCATGGGACGAATAA"
		rc, _ := ref.RevComp("CC" + orf + "GGA")
		pc := phaseCase{Orfs: []string{orf}, Translate: false, Reverse: true, CutEnd: true, Seqs: []seqSpec{{Name: "s0", Seq: rc, Exact: true, RC: true, Start: 2}, {Name: "s1", Seq: "T" + orf, Exact: true, Start: 1}}}
		c.Input(pc)
		o, s := pc.bags()
		ch, err := pc.phaser(1).Phase(o, s)
		if err != nil {
			c.Failf("phase-error", "%v", err)
			return
		}
		checkResults(c, pc, drain(ch), "witness")
		c.NonTrivial("exact-nt")
	}
}

func main() {
	mon.SetNote("rule", "phase: case = 1..3 reference ORFs (ATG + 9..48 sense codons + stop) and 3..40 sequences = random flank + copy of a reference (verbatim, or substitutions 1-15 % and codon indels, first codon kept) + random flank, optionally on the reverse strand / lower case; options translate, reverse, cut-end, 3 genetic codes drawn at random; run with 1 and with 2..8 workers. orf: 1..6 sequences built from start/stop rich pieces so that ORFs in different frames overlap, both strands. noref: Phase(nil) vs Phase(longest ORF). sched (-race): the same sets handed in through a SeqBag/Sequence wrapper that records dispatch / Translate / Clone / result / closed events and perturbs the schedule (Gosched bursts, 50-1500 us sleeps, channel buffer 0/1/50) for workers 1,2,3,8,16,32 x GOMAXPROCS 1,2,4,16. faults (-race): every fault position k of sets of 3..8 sequences: a too short sequence at row k, the k-th Translate failing, the k-th Clone yielding a sequence whose translation fails. Non-trivial = every phase case (all contain mutated or flanked copies); for sched the distinct (worker count, arrival order) pairs are what is counted as distinct; for orf a set holding at least one ORF."+cliRule)
	mon.SetNote("assumptions", "reference translation = NCBI tables 1, 2, 5 typed in lib/ref/gencode.go;; stops of the ORF search are TAA, TAG, TGA whatever the genetic code (as documented for LongestORF), case folded, U as T;; without cut-end the trimmed nucleotides must run to the end of the sequence, with cut-end any end is accepted (the statement only fixes the start);; 'exact copy' is only asserted for upper-case sequences holding the first reference verbatim exactly once over the strands searched;; every generated copy keeps its ATG, so that a positive-scoring anchored alignment always exists (pure junk sequences are outside the quantifier);; the Removed flag is not part of the statement and is only counted;; deadlock verdicts come from a goroutine dump taken after 2000 scheduler yields + 100 ms without any wrapper event (logical probe), never from a deadline"+cliAssumptions)
	mon.Floor("translate:true", 200)
	mon.Floor("translate:false", 200)
	mon.Floor("reverse:true", 200)
	mon.Floor("cutend:true", 200)
	mon.Floor("exact-copy-position-checked", 500)
	mon.Floor("orf:overlapping-frames", 500)
	mon.Floor("orf:longest-starts-inside-a-shorter-orf-of-another-frame", 200)
	mon.Floor("SeqBag.LongestORF", 500)
	mon.Floor("noref", 50)
	for _, k := range cpuChoices {
		mon.Floor(fmt.Sprintf("sched:cpus:%d", k), 5)
	}
	mon.Floor("sched:arrival-order-differs-from-input-order", 5)
	mon.Floor("faults:kind:0", 20)
	mon.Floor("faults:kind:1", 20)
	mon.Floor("faults:kind:2", 5)
	cliFloors()
	mon.Floor("concurrent:calls", 500)
	mon.Floor("phaser-reuse:refused-set-in-between=true", 100)
	mon.Floor("phaser-reuse:between=an empty set", 100)
	mon.Main("C16", []mon.Sub{
		{Name: "witness", Quick: 3, Thorough: 3, Run: runWitness},
		{Name: "phase", Quick: 3000, Thorough: 150000, Run: runPhase},
		{Name: "orf", Quick: 40000, Thorough: 2000000, Run: runOrf},
		{Name: "noref", Quick: 600, Thorough: 30000, Run: runNoRef},
		{Name: "sched", Quick: 240, Thorough: 12000, Race: true, Run: runSched},
		{Name: "faults", Quick: 18 * 24, Thorough: 18 * 24 * 10, Race: true, Run: runFaults},
		{Name: "concurrent", Quick: 64, Thorough: 1200, Race: true, Run: func(c *mon.Case) { conc.Run(c, "phase") }},
		{Name: "cli", Quick: 150, Thorough: 1500, Serial: true, Run: runCli},
	})
}
