// cli sub-check of C16: the relations of the statement through `goalign orf`, `goalign phase` and `goalign phasent`
// (cmd/orf.go, cmd/phase.go, cmd/phasent.go). The binary is built once per process from the tree under test
// (VERIF_REPO) into the scratch directory; every case owns a directory below it, writes the sequences of
// genPhaseCase / genOrfSeq (fasta with --unaligned, or padded with gaps to an alignment in fasta / phylip / nexus /
// clustal: documented "alignment is first unaligned"), the reference ORFs (--ref-orf, or none: longest ORF of the
// set), runs the command with -t 1 and again with -t 4, and checks the written files: one output per input
// sequence or a logged removal, in input order, trimmed nucleotides = substring of the input (or of its reverse
// complement with --reverse) at the logged position, codon sequence in frame, amino acids = its translation
// under --genetic-code, exact single copy trimmed at its start, same files for both thread counts.
package main

import (
	"bytes"
	"compress/gzip"
	"fmt"
	"io"
	"os"
	"os/exec"
	"path/filepath"
	"strconv"
	"strings"

	"github.com/evolbioinfo/goalign/align"
	"github.com/evolbioinfo/goalign/io/clustal"
	"github.com/evolbioinfo/goalign/io/nexus"

	"verif/lib/gen"
	"verif/lib/h"
	"verif/lib/mon"
	"verif/lib/ref"
)

var cliBin, cliDir, cliBuildErr string

func cliSetup() bool {
	if cliBin != "" {
		return true
	}
	if cliBuildErr != "" {
		return false
	}
	repo := os.Getenv("VERIF_REPO")
	if repo == "" {
		repo = "/repo"
	}
	scratch := os.Getenv("VERIF_SCRATCH")
	if scratch == "" {
		scratch = os.TempDir()
	}
	dir, err := os.MkdirTemp(scratch, "c16-cli-")
	if err != nil {
		cliBuildErr = err.Error()
		fmt.Fprintln(os.Stderr, "c16 cli: "+cliBuildErr)
		return false
	}
	bin := filepath.Join(dir, "goalign")
	cmd := exec.Command("go", "build", "-o", bin, ".")
	cmd.Dir = repo
	env := []string{}
	for _, e := range os.Environ() {
		if !strings.HasPrefix(e, "GOFLAGS=") {
			env = append(env, e)
		}
	}
	cmd.Env = append(env, "GOFLAGS=-mod=readonly", "GOPROXY=off", "GOSUMDB=off", "GOTOOLCHAIN=local")
	if out, err := cmd.CombinedOutput(); err != nil {
		cliBuildErr = fmt.Sprintf("go build of %s failed: %v\n%s", repo, err, out)
		fmt.Fprintln(os.Stderr, "c16 cli: "+cliBuildErr)
		os.RemoveAll(dir)
		return false
	}
	cliBin, cliDir = bin, dir
	return true
}

type cliCase struct {
	Cmd    string            `json:"command"`
	Case   *phaseCase        `json:"case,omitempty"`
	Seqs   []string          `json:"orf_seqs,omitempty"`
	NoRef  bool              `json:"no_reference"`
	Format string            `json:"format"`
	Args   []string          `json:"args"`
	Files  map[string]string `json:"files"`
}

type cliCtx struct {
	c    *mon.Case
	dir  string
	k    *cliCase
	runs int
}

type procOut struct {
	stdout, stderr string
	exit           int
	files          map[string]string
}

func (x *cliCtx) count(k string) { x.c.Count("cli:" + k) }

func (x *cliCtx) file(name, content string) string {
	if err := os.WriteFile(filepath.Join(x.dir, name), []byte(content), 0644); err != nil {
		panic("harness: " + err.Error())
	}
	if x.k.Files == nil {
		x.k.Files = map[string]string{}
	}
	x.k.Files[name] = content
	return name
}

// run executes the binary in the directory of the case and collects the named output files (removed first).
func (x *cliCtx) run(args []string, outs []string) procOut {
	for _, o := range outs {
		os.Remove(filepath.Join(x.dir, o))
	}
	cmd := exec.Command(cliBin, args...)
	cmd.Dir = x.dir
	cmd.Stdin = strings.NewReader("")
	var so, se bytes.Buffer
	cmd.Stdout, cmd.Stderr = &so, &se
	p := procOut{files: map[string]string{}}
	if err := cmd.Run(); err != nil {
		p.exit = 1
		if ee, ok := err.(*exec.ExitError); ok {
			p.exit = ee.ExitCode()
		}
	}
	x.runs++
	p.stdout, p.stderr = so.String(), se.String()
	for _, o := range outs {
		if b, err := os.ReadFile(filepath.Join(x.dir, o)); err == nil {
			p.files[o] = string(b)
		}
	}
	return p
}

func (p procOut) crashed() bool {
	return strings.Contains(p.stderr, "panic:") || strings.Contains(p.stderr, "goroutine ") || strings.Contains(p.stdout, "panic:") || p.exit == 2 || p.exit < 0 || strings.Contains(p.stderr, "DATA RACE")
}

func cliHead(s string, n int) string {
	if len(s) > n {
		return s[:n] + "…"
	}
	return s
}

func (x *cliCtx) fail(sig string, p procOut, format string, a ...interface{}) {
	var fs strings.Builder
	for _, n := range []string{"input.fa", "input.aln", "orfs.fa"} {
		if v, ok := x.k.Files[n]; ok {
			fmt.Fprintf(&fs, "--- %s\n%s", n, cliHead(v, 1500))
		}
	}
	for n, v := range p.files {
		fmt.Fprintf(&fs, "+++ %s\n%s", n, cliHead(v, 900))
	}
	x.c.Failf("cli:"+sig, "goalign %s\n%sexit %d stderr %q\nstdout:\n%s\n%s", strings.Join(x.k.Args, " "), fs.String(), p.exit, cliHead(strings.TrimSpace(p.stderr), 300), cliHead(p.stdout, 900), fmt.Sprintf(format, a...))
}

func parseFasta(b string) (names, seqs []string) {
	for _, ln := range strings.Split(b, "\n") {
		ln = strings.TrimRight(ln, "\r")
		if strings.HasPrefix(ln, ">") {
			names = append(names, ln[1:])
			seqs = append(seqs, "")
		} else if len(seqs) > 0 {
			seqs[len(seqs)-1] += strings.TrimSpace(ln)
		}
	}
	return
}

func writeFasta(names, seqs []string, width int) string {
	var sb strings.Builder
	for i, s := range seqs {
		sb.WriteString(">" + names[i] + "\n")
		if width <= 0 {
			sb.WriteString(s + "\n")
			continue
		}
		for p := 0; p < len(s); p += width {
			e := p + width
			if e > len(s) {
				e = len(s)
			}
			sb.WriteString(s[p:e] + "\n")
		}
	}
	return sb.String()
}

// padToAlignment inserts gaps (leading, trailing, internal) so that all rows have the same length.
func padToAlignment(r *gen.Rand, seqs []string) []string {
	max := 0
	for _, s := range seqs {
		if len(s) > max {
			max = len(s)
		}
	}
	max += r.Intn(4)
	out := make([]string, len(seqs))
	for i, s := range seqs {
		b := []byte(s)
		for len(b) < max {
			var p int
			switch r.Intn(3) {
			case 0:
				p = 0
			case 1:
				p = len(b)
			default:
				p = r.Intn(len(b) + 1)
			}
			b = append(b[:p], append([]byte{'-'}, b[p:]...)...)
		}
		out[i] = string(b)
	}
	return out
}

// writeSeqInput writes the sequences as an unaligned fasta (--unaligned) or as an alignment; returns the input options.
func (x *cliCtx) writeSeqInput(r *gen.Rand, names, seqs []string, mode int, fastaOnly bool) []string {
	lower := false
	for _, s := range seqs {
		if s != strings.ToUpper(s) || strings.ContainsAny(s, "Uu") {
			lower = true
		}
	}
	formats := []string{"unaligned", "fasta", "unaligned", "phylip", "unaligned", "nexus", "fasta", "clustal"}
	f := formats[mode%len(formats)]
	if (f == "nexus" || f == "clustal") && lower {
		f = "phylip"
	}
	if fastaOnly && f != "unaligned" {
		f = "fasta"
	}
	x.k.Format = f
	x.count("format:" + f)
	if f == "unaligned" {
		return []string{"-i", x.file("input.fa", writeFasta(names, seqs, r.PickInt([]int{0, 0, 60, 11}))), "--unaligned"}
	}
	rows := padToAlignment(r, seqs)
	var content string
	var fl []string
	switch f {
	case "fasta":
		content = writeFasta(names, rows, r.PickInt([]int{0, 60}))
	case "phylip":
		var sb strings.Builder
		fmt.Fprintf(&sb, "   %d   %d\n", len(rows), len(rows[0]))
		for i, s := range rows {
			fmt.Fprintf(&sb, "%s  %s\n", names[i], s)
		}
		content, fl = sb.String(), []string{"-p"}
	default:
		gr := make(gen.Rows, len(rows))
		for i, s := range rows {
			gr[i] = gen.Seq{Name: names[i], Seq: s}
		}
		al := h.MkAlign(gr, align.NUCLEOTIDS)
		if f == "nexus" {
			content, fl = nexus.WriteAlignment(al), []string{"-x"}
		} else {
			content, fl = clustal.WriteAlignment(al), []string{"-u"}
		}
	}
	if r.Chance(0.25) {
		fl = []string{"--auto-detect"}
		x.count("auto-detect")
	}
	return append([]string{"-i", x.file("input.aln", content)}, fl...)
}

// ---------------------------------------------------------------------------- orf

func (x *cliCtx) runOrfCli(r *gen.Rand, round int) {
	c := x.c
	n := r.Range(1, 6)
	names, ss := make([]string, n), make([]string, n)
	for i := range ss {
		names[i] = "s" + gen.Itoa(i)
		for ss[i] = genOrfSeq(r); len(ss[i]) == 0; ss[i] = genOrfSeq(r) {
		}
	}
	reverse := round%2 == 1
	if reverse && round%4 == 1 { // the longest forward ORF goes to the reverse strand
		best, bi := -1, 0
		for i, s := range ss {
			if m := longest(orfsOf(s)); m > best {
				best, bi = m, i
			}
		}
		if rc, ok := ref.RevComp(strings.ReplaceAll(strings.ToUpper(ss[bi]), "U", "T")); ok && best > 0 {
			ss[bi] = rc
			x.count("orf:longest-put-on-the-reverse-strand")
		}
	}
	x.k.Seqs = ss
	in := ss
	inputKind := "unaligned"
	if round%4 >= 2 { // documented: aligned sequences (with '-') are unaligned first
		in = padToAlignment(r, ss)
		inputKind = "with-gaps"
	}
	x.count("orf:input:" + inputKind)
	args := []string{"orf", "-i", x.file("input.fa", writeFasta(names, in, r.PickInt([]int{0, 60})))}
	if round%8 >= 4 { // documented: format options are ignored
		args = append(args, r.PickStr([]string{"-p", "-x", "--auto-detect"}))
		x.count("orf:format-option-ignored")
	}
	if reverse {
		args = append(args, "--reverse")
	}
	outs := []string{}
	if round%3 == 1 {
		args = append(args, r.PickStr([]string{"-o", "--output"}), "orf.fa")
		outs = []string{"orf.fa"}
	}
	x.k.Args = args
	c.Input(x.k)
	c.Checkpoint()
	p := x.run(args, outs)
	x.count("cmd:orf")
	x.count(fmt.Sprintf("orf:reverse:%v", reverse))
	if p.crashed() {
		x.fail("orf:crash", p, "the command crashed")
		return
	}
	fold := func(s string) string { return strings.ReplaceAll(strings.ToUpper(s), "U", "T") }
	global := -1
	for _, s := range ss {
		if m := longest(orfsOf(s)); m > global {
			global = m
		}
		if reverse {
			if rc, ok := ref.RevComp(fold(s)); ok {
				if m := longest(orfsOf(rc)); m > global {
					global = m
				}
			}
		}
	}
	if global < 0 {
		x.count("orf:none-in-the-set")
		if p.exit == 0 {
			x.fail("orf:found-where-none-exists", p, "exit status 0 although no sequence holds an ATG...stop ORF (reverse=%v)", reverse)
		}
		return
	}
	if p.exit != 0 {
		x.fail("orf:unexpected-error", p, "the command failed although a sequence holds an ORF of length %d", global)
		return
	}
	text := p.stdout
	if len(outs) > 0 {
		text = p.files["orf.fa"]
	}
	on, os_ := parseFasta(text)
	if len(on) != 1 {
		x.fail("orf:output-format", p, "one fasta sequence expected, got %d", len(on))
		return
	}
	src := ""
	for i, nm := range names {
		if nm == on[0] {
			src = ss[i]
		}
	}
	if src == "" {
		x.fail("orf:unknown-name", p, "the ORF is named %q which is no input sequence", on[0])
		return
	}
	cands := []string{fold(src)}
	if reverse {
		if rc, ok := ref.RevComp(fold(src)); ok {
			cands = append(cands, rc)
		}
	}
	found := false
	for _, S := range cands {
		for _, oo := range orfsOf(S) {
			if S[oo[0]:oo[1]] == fold(os_[0]) {
				found = true
			}
		}
	}
	if !found {
		x.fail("orf:not-an-orf-of-the-named-sequence", p, "%q = %s is no ATG-to-first-in-frame-stop ORF of that sequence (%s), reverse=%v", on[0], os_[0], src, reverse)
		return
	}
	if len(os_[0]) != global {
		x.fail("orf:not-the-longest", p, "ORF of length %d written, a sequence holds one of length %d (reverse=%v)", len(os_[0]), global, reverse)
		return
	}
	x.count("orf:checked")
	c.NonTrivial("cli-orf", strings.Join(ss, "/"), fmt.Sprint(reverse))
	c.Note("goalign %s -> %s", strings.Join(args, " "), os_[0])
}

// ---------------------------------------------------------------------------- phase / phasent

var codeNames = []string{"standard", "mitov", "mitoi"}

type logLine struct {
	name, ref string
	pos, ln   int
	removed   bool
	fields    []string
}

// parseLog reads the log written with -l: the reference ORFs, then one line per input sequence.
func parseLog(text string, ncol int) (refNames, refSeqs []string, lines []logLine, err error) {
	ls := strings.Split(strings.TrimSuffix(text, "\n"), "\n")
	if len(ls) == 0 || !strings.HasPrefix(ls[0], "Detected/Given ORF") {
		return nil, nil, nil, fmt.Errorf("first line %q", cliHead(text, 80))
	}
	i := 1
	for ; i < len(ls) && !strings.HasPrefix(ls[i], "SeqName\t"); i++ {
		if ls[i] == "" {
			continue
		}
		k := strings.LastIndex(ls[i], ":")
		if k < 0 {
			return nil, nil, nil, fmt.Errorf("reference line %q", ls[i])
		}
		refNames, refSeqs = append(refNames, ls[i][:k]), append(refSeqs, ls[i][k+1:])
	}
	if i >= len(ls) {
		return nil, nil, nil, fmt.Errorf("no header line SeqName...")
	}
	if got := len(strings.Split(ls[i], "\t")); got != ncol {
		return nil, nil, nil, fmt.Errorf("header %q has %d columns, %d documented", ls[i], got, ncol)
	}
	for _, ln := range ls[i+1:] {
		f := strings.Split(ln, "\t")
		if len(f) < 4 {
			return nil, nil, nil, fmt.Errorf("line %q", ln)
		}
		l := logLine{name: f[0], ref: f[1], fields: f}
		if f[2] == "Removed" {
			l.removed = true
		} else {
			var e1, e2 error
			l.pos, e1 = strconv.Atoi(f[2])
			l.ln, e2 = strconv.Atoi(f[3])
			if e1 != nil || e2 != nil || len(f) != ncol {
				return nil, nil, nil, fmt.Errorf("line %q", ln)
			}
		}
		lines = append(lines, l)
	}
	return
}

func (x *cliCtx) runPhaseCli(r *gen.Rand, cmdName string, round int) {
	c := x.c
	translate := cmdName == "phase"
	pc := genPhaseCase(r, 8)
	if n := len(pc.Seqs); n > 0 && pc.Seqs[n-1].Junk {
		pc.Seqs = pc.Seqs[:n-1] // what the commands do with a removed sequence (log, files) is not modelled here
	}
	pc.Translate = translate
	pc.Reverse = round%2 == 1
	pc.CutEnd = (round/2)%2 == 1
	pc.Code = (round / 4) % 3
	noRef := round%5 == 4
	// the strand of the copies and the exactness flags were drawn with the generator's own reverse option: redo both
	for i := range pc.Seqs {
		sp := &pc.Seqs[i]
		if sp.RC {
			sp.Seq, _ = ref.RevComp(sp.Seq)
			sp.RC = false
		}
		if pc.Reverse && r.Chance(map[bool]float64{true: 0.7, false: 0.4}[noRef]) {
			sp.Seq, _ = ref.RevComp(sp.Seq)
			sp.RC = true
		}
	}
	// now and then a copy that lost its first one or two bases (the codon sequence then skips bases to be in frame)
	if round%3 == 1 {
		k := r.Range(1, 2)
		pc.Seqs = append(pc.Seqs, seqSpec{Name: "t" + gen.Itoa(k), Seq: pc.Orfs[0][k:] + r.Str(r.PickInt([]int{0, 2, 7}), "ACGT"), Ref: 0})
		x.count("truncated-copy")
	}
	for i := range pc.Seqs {
		sp := &pc.Seqs[i]
		sp.Exact = false
		if strings.HasPrefix(sp.Name, "t") {
			continue
		}
		if pc.Orfs != nil && sp.Seq == strings.ToUpper(sp.Seq) {
			base := pc.Orfs[sp.Ref]
			fw := strings.Count(sp.Seq, base)
			rcs, _ := ref.RevComp(sp.Seq)
			rv := strings.Count(rcs, base)
			if pc.Reverse {
				sp.Exact = fw+rv == 1 && ((sp.RC && rv == 1) || (!sp.RC && fw == 1))
			} else {
				sp.Exact = fw == 1 && !sp.RC
			}
			if sp.Exact {
				S := sp.Seq
				if sp.RC {
					S = rcs
				}
				sp.Exact = strings.Index(S, base) == sp.Start
			}
			// another reference may match as well or better: only single reference cases assert the exact start
			if len(pc.Orfs) > 1 {
				sp.Exact = false
			}
		}
	}
	x.k.Case = &pc
	x.k.NoRef = noRef
	names, seqs := make([]string, len(pc.Seqs)), make([]string, len(pc.Seqs))
	for i, s := range pc.Seqs {
		names[i], seqs[i] = s.Name, s.Seq
	}
	args := []string{cmdName}
	args = append(args, x.writeSeqInput(r, names, seqs, round/3, false)...)
	if !noRef {
		on := make([]string, len(pc.Orfs))
		for i := range on {
			on[i] = "orf" + gen.Itoa(i)
		}
		args = append(args, "--ref-orf", x.file("orfs.fa", writeFasta(on, pc.Orfs, r.PickInt([]int{0, 60}))))
		x.count("flag:--ref-orf")
	} else {
		x.count("no-reference")
	}
	if pc.Reverse {
		args = append(args, "--reverse")
		x.count("flag:--reverse")
	}
	if pc.CutEnd {
		args = append(args, "--cut-end")
		x.count("flag:--cut-end")
	}
	if pc.Code != 0 || r.Chance(0.3) {
		args = append(args, "--genetic-code", codeNames[pc.Code])
		x.count("flag:--genetic-code=" + codeNames[pc.Code])
	} else {
		x.count("genetic-code-omitted")
	}
	// scoring options: the structural relations hold for every scoring; the exact start is only asserted with the defaults
	if round%7 == 6 {
		for _, f := range [][]string{{"--match", "2"}, {"--mismatch", "-2"}, {"--gap-open", "-8"}, {"--gap-extend", "-1"}, {"--match-cutoff", r.PickStr([]string{"0.3", "-1", "0.6"})}, {"--len-cutoff", r.PickStr([]string{"-1", "0.5"})}} {
			if r.Bool() {
				args = append(args, f...)
				x.count("flag:" + f[0])
			}
		}
		for i := range pc.Seqs {
			pc.Seqs[i].Exact = false
		}
	}
	// outputs: -o file or stdout; --aa-output, -l, (phasent) --nt-output given or not
	outs := []string{}
	ntFile, aaFile, codFile, logFile := "", "", "", ""
	if round%3 != 0 {
		ntFile = "phased.fa"
		args = append(args, r.PickStr([]string{"-o", "--output"}), ntFile)
		outs = append(outs, ntFile)
		x.count("flag:-o")
	} else {
		x.count("output-stdout")
	}
	if round%4 != 3 {
		aaFile = "phased_aa.fa"
		args = append(args, "--aa-output", aaFile)
		outs = append(outs, aaFile)
		x.count("flag:--aa-output")
	}
	if !translate && round%3 != 2 {
		codFile = "phased_codon.fa"
		args = append(args, "--nt-output", codFile)
		outs = append(outs, codFile)
		x.count("flag:--nt-output")
	}
	if round%6 != 5 {
		logFile = "phase.log"
		args = append(args, r.PickStr([]string{"-l", "--log"}), logFile)
		outs = append(outs, logFile)
		x.count("flag:-l")
	} else {
		x.count("log-omitted")
	}
	x.k.Args = append(append([]string{}, args...), "-t", "1")
	c.Input(x.k)
	c.Checkpoint()
	p1 := x.run(append(append([]string{}, args...), "-t", "1"), outs)
	p4 := x.run(append(append([]string{}, args...), "--threads", "4"), outs)
	x.count("cmd:" + cmdName)
	for _, p := range []procOut{p1, p4} {
		if p.crashed() {
			x.fail(cmdName+":crash", p, "the command crashed")
			return
		}
	}
	// is there any ORF at all (no reference given)?
	global, holder := -1, map[string]bool{}
	if noRef {
		for _, s := range pc.Seqs {
			m := longest(orfsOf(s.Seq))
			if pc.Reverse {
				rc, _ := ref.RevComp(s.Seq)
				if m2 := longest(orfsOf(rc)); m2 > m {
					m = m2
				}
			}
			if m > global {
				global, holder = m, map[string]bool{}
			}
			if m == global {
				holder[s.Name] = true
			}
		}
		if global < 0 {
			x.count("no-reference:no-orf-in-the-set")
			if p1.exit == 0 || p4.exit == 0 {
				x.fail(cmdName+":reference-found-where-none-exists", p1, "exit status 0 although no sequence holds an ORF and no reference is given")
			}
			return
		}
	}
	fluke := alphabetFluke(pc)
	if p1.exit != 0 || p4.exit != 0 {
		// "unless an alignment error is reported": the aligner may refuse translated sequences made of letters that are nucleotide codes too
		msg := p1.stderr + p4.stderr
		if translate && (fluke || noRef) && strings.Contains(msg, "character not part of alphabet") {
			x.count("alignment-error-reported:ambiguous-alphabet")
			return
		}
		x.fail(cmdName+":unexpected-error", p1, "the command failed (-t 1: exit %d, -t 4: exit %d, stderr of -t 4 %q) although every sequence holds a copy of a reference", p1.exit, p4.exit, cliHead(strings.TrimSpace(p4.stderr), 200))
		return
	}
	// same files whatever the number of threads
	same := p1.stdout == p4.stdout
	for _, o := range outs {
		if p1.files[o] != p4.files[o] {
			same = false
		}
	}
	if !same {
		x.fail(cmdName+":output-depends-on-threads", p1, "-t 1 and -t 4 wrote different outputs; -t 4:\nstdout:\n%s\nfiles: %q", cliHead(p4.stdout, 900), p4.files)
		return
	}
	x.count("threads-1-and-4-agree")
	ntText := p1.stdout
	if ntFile != "" {
		ntText = p1.files[ntFile]
		if strings.TrimSpace(p1.stdout) != "" {
			x.fail(cmdName+":output-on-stdout-too", p1, "-o %s given and text on stdout", ntFile)
			return
		}
	}
	for _, o := range outs {
		if _, ok := p1.files[o]; !ok {
			x.fail(cmdName+":no-output-file", p1, "the file %s was not written", o)
			return
		}
	}
	ntN, ntS := parseFasta(ntText)
	// the log: one line per input, in input order
	var lines []logLine
	haveLog := logFile != ""
	if haveLog {
		ncol := 5
		if !translate {
			ncol = 6
		}
		rn, rs, ls, err := parseLog(p1.files[logFile], ncol)
		if err != nil {
			x.fail(cmdName+":log-format", p1, "log: %v", err)
			return
		}
		lines = ls
		if len(lines) != len(pc.Seqs) {
			x.fail(cmdName+":not-one-log-line-per-sequence", p1, "%d log lines for %d input sequences", len(lines), len(pc.Seqs))
			return
		}
		for i, l := range lines {
			if l.name != pc.Seqs[i].Name {
				x.fail(cmdName+":log-not-in-input-order", p1, "log line %d is about %q, input sequence %d is %q", i, l.name, i, pc.Seqs[i].Name)
				return
			}
		}
		if noRef {
			if len(rn) != 1 || len(rs[0]) != global || !strings.HasSuffix(rn[0], "_LongestORF") || !holder[strings.TrimSuffix(rn[0], "_LongestORF")] {
				x.fail(cmdName+":reference-not-the-longest-orf", p1, "reference of the log: %q %q; the longest ORF of the set has length %d and is held by %v", rn, rs, global, holder)
				return
			}
			x.count("no-reference:longest-orf-checked")
		} else if len(rn) != len(pc.Orfs) {
			x.fail(cmdName+":log-references", p1, "%d references in the log, %d given", len(rn), len(pc.Orfs))
			return
		}
		refOK := map[string]bool{}
		for _, n := range rn {
			refOK[n] = true
		}
		for _, l := range lines {
			if !l.removed && !refOK[l.ref] {
				x.fail(cmdName+":log-references", p1, "sequence %q: best reference %q is none of %q", l.name, l.ref, rn)
				return
			}
		}
	}
	// expected names of the outputs: the inputs that were not removed, in input order
	var kept []int
	if haveLog {
		for i, l := range lines {
			if l.removed {
				x.count("removed-sequences")
			} else {
				kept = append(kept, i)
			}
		}
		if len(kept) != len(ntN) {
			x.fail(cmdName+":not-one-output-per-sequence", p1, "%d sequences written, the log keeps %d of the %d inputs", len(ntN), len(kept), len(pc.Seqs))
			return
		}
	} else {
		// without a log: a subsequence of the inputs, in input order
		j := 0
		for i := range pc.Seqs {
			if j < len(ntN) && ntN[j] == pc.Seqs[i].Name {
				kept = append(kept, i)
				j++
			}
		}
		if j != len(ntN) {
			x.fail(cmdName+":output-not-in-input-order", p1, "written names %q are no subsequence of the input names", ntN)
			return
		}
	}
	for j, i := range kept {
		if ntN[j] != pc.Seqs[i].Name {
			x.fail(cmdName+":output-not-in-input-order", p1, "output %d is %q, expected %q (inputs not removed, in input order)", j, ntN[j], pc.Seqs[i].Name)
			return
		}
	}
	var aaN, aaS, coN, coS []string
	if aaFile != "" {
		aaN, aaS = parseFasta(p1.files[aaFile])
		if strings.Join(aaN, ",") != strings.Join(ntN, ",") {
			x.fail(cmdName+":aa-output-names", p1, "--aa-output holds %q, the nucleotide output %q", aaN, ntN)
			return
		}
	}
	if codFile != "" {
		coN, coS = parseFasta(p1.files[codFile])
		if strings.Join(coN, ",") != strings.Join(ntN, ",") {
			x.fail(cmdName+":nt-output-names", p1, "--nt-output holds %q, the nucleotide output %q", coN, ntN)
			return
		}
	}
	ctx := fmt.Sprintf("reverse=%v cutend=%v code=%s", pc.Reverse, pc.CutEnd, codeNames[pc.Code])
	for j, i := range kept {
		sp := pc.Seqs[i]
		nt := ntS[j]
		cands := []string{sp.Seq}
		if pc.Reverse {
			rc, _ := ref.RevComp(sp.Seq)
			cands = append(cands, rc)
		}
		// (2) substring at the logged position
		pos := -1
		okSub := false
		if haveLog {
			pos = lines[i].pos
			for _, S := range cands {
				if pos >= 0 && pos+len(nt) <= len(S) && S[pos:pos+len(nt)] == nt && (pc.CutEnd || pos+len(nt) == len(S)) {
					okSub = true
				}
			}
		} else {
			for _, S := range cands {
				if pc.CutEnd && strings.Contains(S, nt) || !pc.CutEnd && strings.HasSuffix(S, nt) {
					okSub = true
				}
			}
		}
		if !okSub {
			x.fail(cmdName+":ntseq-not-the-substring-at-position", p1, "%s sequence %q = %s\nlogged position %d (-1: no log), written %s (must be input[position:%s] on the forward%s strand)", ctx, sp.Name, sp.Seq, pos, nt,
				map[bool]string{true: "end of the aligned part", false: "end"}[pc.CutEnd], map[bool]string{true: " or reverse", false: ""}[pc.Reverse])
			return
		}
		// (3) codon sequence in frame, amino acids = its translation
		offs := []int{0}
		if !translate {
			offs = []int{0, 1, 2}
		}
		off := -1
		if codFile != "" {
			o := len(nt) - len(coS[j])
			if o < 0 || o > 2 || nt[o:] != coS[j] {
				x.fail(cmdName+":codonseq-out-of-frame", p1, "%s sequence %q: -o %s, --nt-output %s", ctx, sp.Name, nt, coS[j])
				return
			}
			offs, off = []int{o}, o
		}
		if aaFile != "" {
			okAa := false
			for _, o := range offs {
				if o > len(nt) {
					continue
				}
				want, okT := ref.Translate(nt[o:], 0, pc.Code)
				if !okT {
					want = ""
				}
				if want == aaS[j] {
					okAa = true
					if off < 0 {
						off = o
					}
				}
			}
			if !okAa {
				want, _ := ref.Translate(nt[offs[0]:], 0, pc.Code)
				x.fail(cmdName+":aaseq-is-not-the-translation", p1, "%s sequence %q nucleotides %s (frame offset(s) %v)\ntranslation=%s\n--aa-output=%s", ctx, sp.Name, nt, offs, want, aaS[j])
				return
			}
			x.count("translations-checked")
		}
		// the logged length
		if haveLog {
			wantLen := len(nt)
			if translate {
				wantLen = -1
				if aaFile != "" {
					wantLen = len(aaS[j])
				}
			}
			if wantLen >= 0 && lines[i].ln != wantLen {
				x.fail(cmdName+":logged-length", p1, "sequence %q: ExtractedSequenceLength %d logged, the written sequence has %d", sp.Name, lines[i].ln, wantLen)
				return
			}
			if translate && aaFile != "" {
				if fs, err := strconv.Atoi(lines[i].fields[4]); err != nil || fs != strings.Index(aaS[j], "*") {
					x.fail(cmdName+":logged-first-stop", p1, "sequence %q: FirstStop %q logged, the first * of %s is at %d", sp.Name, lines[i].fields[4], aaS[j], strings.Index(aaS[j], "*"))
					return
				}
			}
		}
		// (4) exact single copy => trimmed at its start
		if sp.Exact && !noRef && haveLog {
			if pos != sp.Start {
				x.fail(cmdName+":exact-copy-not-trimmed-at-its-start", p1, "%s sequence %q = %s holds the reference ORF %s verbatim once at %d (reverse strand: %v) but the logged position is %d, written %s", ctx, sp.Name, sp.Seq, pc.Orfs[sp.Ref], sp.Start, sp.RC, pos, nt)
				return
			}
			if off > 0 {
				x.fail(cmdName+":exact-copy-codonseq-out-of-frame", p1, "%s sequence %q holds the reference verbatim and is trimmed at its start, but the codon sequence skips %d base(s)", ctx, sp.Name, off)
				return
			}
			x.count("exact-copy-position-checked")
			// documented: --cut-end also removes the nucleotides after the part aligned with the reference
			S := cands[0]
			if sp.RC {
				S = cands[1]
			}
			if flank := len(S) - sp.Start - len(pc.Orfs[sp.Ref]); pc.CutEnd && flank >= 6 {
				if pos+len(nt) == len(S) {
					x.fail(cmdName+":cut-end-keeps-the-end", p1, "%s sequence %q = %s holds the reference verbatim at %d followed by %d more nucleotides; with --cut-end the written sequence still runs to the end: %s", ctx, sp.Name, sp.Seq, sp.Start, flank, nt)
					return
				}
				x.count("cut-end-checked")
			}
		}
		x.count("results-checked")
	}
	x.count("checked:" + cmdName)
	c.NonTrivial("cli", strings.Join(args, " "), fmt.Sprint(x.k.Files))
	c.Note("goalign %s -> %d of %d sequences written", strings.Join(args, " "), len(ntN), len(pc.Seqs))
}

// ---------------------------------------------------------------------------- refused requests and fixed command lines

func gunzip(b string) string {
	zr, err := gzip.NewReader(strings.NewReader(b))
	if err != nil {
		return "<not gzip: " + err.Error() + ">"
	}
	out, err := io.ReadAll(zr)
	if err != nil {
		return "<gzip: " + err.Error() + ">"
	}
	return string(out)
}

func (x *cliCtx) runRefusedCli(r *gen.Rand, round int) {
	c := x.c
	orf := "ATGCTGAAACCCGGGTTTAAACCCGGGTAG"
	names := []string{"s0", "s1"}
	seqs := []string{"CC" + orf + "GG", orf + "TTTTT"}
	in := x.file("input.fa", writeFasta(names, seqs, 0))
	ro := x.file("orfs.fa", ">orf0\n"+orf+"\n")
	cmdName := []string{"phase", "phasent"}[round%2]
	mustFail := true
	what := ""
	var args, outs []string
	switch (round / 2) % 11 {
	case 0:
		what = "unknown genetic code"
		args = []string{cmdName, "-i", in, "--unaligned", "--ref-orf", ro, "--genetic-code", r.PickStr([]string{"mito", "Standard", "1"})}
	case 1:
		what = "reference file that does not exist"
		args = []string{cmdName, "-i", in, "--unaligned", "--ref-orf", "nosuchorf.fa"}
	case 2:
		what = "unknown flag"
		args = []string{cmdName, "-i", in, "--unaligned", r.PickStr([]string{"--cutend", "--ref", "--reversed", "--aa-out=x"})}
	case 3:
		what = "protein sequences (documented: not nucleotidic is an error)"
		args = []string{[]string{"phase", "phasent", "orf"}[r.Intn(3)], "-i", x.file("prot.fa", ">p0\nMKVLEEQFLIPMKVLEEQ\n>p1\nMKILEFQELLPMKVLEEQ\n")}
		if args[0] != "orf" {
			args = append(args, "--unaligned")
		}
	case 4:
		what = "input file that does not exist"
		args = []string{[]string{"phase", "phasent", "orf"}[r.Intn(3)], "-i", "nosuchfile.fa"}
	case 5:
		what = "sequences of different lengths without --unaligned"
		args = []string{cmdName, "-i", in, "--ref-orf", ro}
	case 6:
		what = "empty reference file"
		args = []string{cmdName, "-i", in, "--unaligned", "--ref-orf", x.file("empty.fa", "")}
	case 7:
		what = "orf: no ATG...stop in any sequence"
		args = []string{"orf", "-i", x.file("noorf.fa", ">a\nCCCCCCCCCATGCCCCCC\n>b\nTTAGGTTAGG\n")}
		if r.Bool() {
			args = append(args, "--reverse")
		}
	case 8, 9:
		// a sequence that shares nothing with the reference (documented: flagged as removed), default options
		mustFail = false
		what = "junk sequence"
		cmdName = []string{"phase", "phasent"}[(round/2)%11-8]
		in = x.file("input.fa", ">s0\nCCATGCTGAAAAAATAAGG\n>junk\nCCCCCCCCCCCC\n")
		ro = x.file("orfs.fa", ">orf0\nATGCTGAAAAAATAA\n")
		args = []string{cmdName, "-i", in, "--unaligned", "--ref-orf", ro, "-o", "phased.fa", "-l", "phase.log"}
		if round%2 == 1 {
			args = append(args, "-t", "4")
		}
		outs = []string{"phased.fa", "phase.log"}
	default:
		// phasent: --nt-output written through a compressing writer, without --aa-output (fixed command line, must succeed)
		mustFail = false
		what = "phasent --nt-output to a .gz file"
		args = []string{"phasent", "-i", in, "--unaligned", "--ref-orf", ro, "--nt-output", "codons.fa.gz", "-o", "phased.fa"}
		outs = []string{"codons.fa.gz", "phased.fa"}
	}
	x.k.Cmd = "refused:" + args[0]
	x.k.Args = args
	c.Input(x.k)
	c.Checkpoint()
	p := x.run(args, outs)
	x.count("cmd:refused")
	if p.crashed() {
		x.fail("refused:crash", p, "the command crashed on a request with %s", what)
		return
	}
	if mustFail {
		if p.exit == 0 {
			x.fail("refused:accepted", p, "exit status 0 for a request with %s", what)
			return
		}
		if strings.TrimSpace(p.stdout+p.stderr) == "" {
			x.fail("refused:no-message", p, "exit status %d without any message for a request with %s", p.exit, what)
			return
		}
	} else if what == "junk sequence" {
		nn, nt := parseFasta(p.files["phased.fa"])
		lg := p.files["phase.log"]
		if p.exit != 0 || strings.Join(nn, ",") != "s0" || nt[0] != "ATGCTGAAAAAATAAGG" || !strings.Contains(lg, "\ns0\torf0\t2\t") || !strings.Contains(lg, "\njunk\tN/A\tRemoved") {
			x.fail("witness:"+cmdName+"-junk-sequence", p, "expected exit 0, s0 trimmed at position 2 and a `Removed` log line for the sequence that shares nothing with the reference")
			return
		}
	} else {
		_, nt := parseFasta(p.files["phased.fa"])
		_, co := parseFasta(gunzip(p.files["codons.fa.gz"]))
		if p.exit != 0 || len(nt) != 2 || strings.Join(co, ",") != orf+"GG,"+orf+"TTTTT" {
			x.fail("witness:phasent-nt-output-gz", p, "expected exit 0, two phased sequences and the same two sequences in the compressed --nt-output file; got -o %q, --nt-output (decompressed) %q", nt, co)
			return
		}
	}
	x.count("refused-checked")
	c.NonTrivial("cli-refused", strings.Join(args, " "))
}

func runCli(c *mon.Case) {
	if !cliSetup() {
		return // the floors cli:* are missed: INCONCLUSIVE, not a violation
	}
	dir, err := os.MkdirTemp(cliDir, "case-")
	if err != nil {
		panic("harness: " + err.Error())
	}
	defer os.RemoveAll(dir)
	if c.Verbose {
		defer func() { os.RemoveAll(cliDir); cliBin, cliDir = "", "" }()
	}
	x := &cliCtx{c: c, dir: dir, k: &cliCase{}}
	defer func() { c.Add("cli:runs", x.runs) }()
	round := c.Idx / 6
	switch c.Idx % 6 {
	case 0:
		x.k.Cmd = "orf"
		x.runOrfCli(c.R, round)
	case 1, 2:
		x.k.Cmd = "phase"
		x.runPhaseCli(c.R, "phase", 2*round+c.Idx%6-1)
	case 3, 4:
		x.k.Cmd = "phasent"
		x.runPhaseCli(c.R, "phasent", 2*round+c.Idx%6-3)
	default:
		x.runRefusedCli(c.R, round)
	}
}

const cliRule = " Sub-check cli: one case = `goalign orf` (1..6 start/stop rich sequences, plain or padded with gaps, --reverse on/off, -o or stdout, ignored format options), `goalign phase` or `goalign phasent` (sets of genPhaseCase with up to 8 sequences; --unaligned fasta or gap padded alignment in fasta / phylip / nexus / clustal, format flag or --auto-detect; --ref-orf with 1..3 references or none; --reverse, --cut-end, --genetic-code standard / mitov / mitoi or omitted, cycled; -o or stdout, --aa-output, --nt-output (phasent), -l given or not; 1 case in 7 with --match --mismatch --gap-open --gap-extend --match-cutoff --len-cutoff), each run with -t 1 and --threads 4, or a refused request (unknown genetic code / flag / file, protein input, ragged alignment, empty reference file, no ORF) with the binary built from the tree under test; relations checked on the written files."

const cliAssumptions = ";; cli: the Removed lines of the log are accepted for any sequence (the cutoffs are not part of the statement) and only counted; without -l the position is not known: the written nucleotides must be a suffix (a substring with --cut-end) of a searched strand; without --nt-output the amino acids of phasent must be the translation of the written nucleotides in one of the three frames; the exact start is asserted for single reference cases with default scoring and an upper case sequence holding the reference exactly once over the strands searched; an error exit of `phase` is accepted when the message is 'character not part of alphabet' and the ambiguous alphabet fluke of the library check applies (or no reference is given); with no reference and no ORF in the set an error exit is required; the log columns LongestOutFrame / FirstStopCodon of phasent are not checked (no relation in the statement); .gz outputs are a feature of goalign's file writer (io/utils), used by one fixed command line"

func cliFloors() {
	mon.Floor("cli:runs", 200)
	for _, k := range []string{"orf", "phase", "phasent", "refused"} {
		mon.Floor("cli:cmd:"+k, 15)
	}
	mon.Floor("cli:orf:checked", 12)
	mon.Floor("cli:checked:phase", 25)
	mon.Floor("cli:checked:phasent", 25)
	mon.Floor("cli:refused-checked", 12)
	mon.Floor("cli:results-checked", 200)
	mon.Floor("cli:translations-checked", 150)
	mon.Floor("cli:exact-copy-position-checked", 20)
	mon.Floor("cli:threads-1-and-4-agree", 50)
	mon.Floor("cli:no-reference", 8)
	mon.Floor("cli:truncated-copy", 15)
	mon.Floor("cli:cut-end-checked", 5)
	for _, f := range []string{"--ref-orf", "--reverse", "--cut-end", "--aa-output", "--nt-output", "-l", "-o", "--genetic-code=mitov", "--genetic-code=mitoi"} {
		mon.Floor("cli:flag:"+f, 8)
	}
	for _, f := range []string{"unaligned", "fasta", "phylip"} {
		mon.Floor("cli:format:"+f, 5)
	}
}
