// C11 monitor (process level): the goalign binary built from the working tree is run
// several times with the same input, flags and seed under different --threads values;
// stdout, exit status and every output file must be byte-identical. Plus reformat
// chains that must return the starting bytes, and seqboot+compute distance == distboot.
package main

import (
	"archive/tar"
	"bytes"
	"crypto/sha1"
	"fmt"
	"os"
	"os/exec"
	"path/filepath"
	"sort"
	"strings"
	"sync"
	"time"

	"verif/lib/gen"
	"verif/lib/mon"
	"verif/lib/ref"
)

// ---------------------------------------------------------------- binary

var (
	binOnce  sync.Once
	binPath  string
	binErr   error
	raceOnce sync.Once
	racePath string
	raceErr  error
)

func scratchRoot() string {
	d := os.Getenv("VERIF_SCRATCH")
	if d == "" {
		d = os.TempDir()
	}
	return d
}

func repoDir() string {
	d := os.Getenv("VERIF_REPO")
	if d == "" {
		d = "/repo"
	}
	return d
}

func buildBinary(race bool) (string, error) {
	out := filepath.Join(scratchRoot(), fmt.Sprintf("goalign-%d", os.Getpid()))
	args := []string{"build", "-o", out}
	if race {
		out += "-race"
		args = []string{"build", "-race", "-o", out}
	}
	args = append(args, ".")
	cmd := exec.Command("go", args...)
	cmd.Dir = repoDir()
	cmd.Env = append(os.Environ(), "GOFLAGS=-mod=mod", "GOPROXY=off", "GOSUMDB=off", "GOTOOLCHAIN=local", "CGO_ENABLED=1")
	if b, err := cmd.CombinedOutput(); err != nil {
		return "", fmt.Errorf("go build of the goalign binary failed: %v\n%s", err, b)
	}
	return out, nil
}

func binary() string {
	binOnce.Do(func() { binPath, binErr = buildBinary(false) })
	if binErr != nil {
		fmt.Fprintln(os.Stderr, "harness:", binErr)
		os.Exit(3)
	}
	return binPath
}

func raceBinary() string {
	raceOnce.Do(func() { racePath, raceErr = buildBinary(true) })
	if raceErr != nil {
		fmt.Fprintln(os.Stderr, "harness:", raceErr)
		os.Exit(3)
	}
	return racePath
}

// ---------------------------------------------------------------- running

type outcome struct {
	exit   int
	stdout []byte
	stderr string
	files  map[string][]byte // output files created in the run's own directory
}

// digest of everything the statement calls output
func (o outcome) digest() string {
	h := sha1.New()
	fmt.Fprintf(h, "exit=%d\n", o.exit)
	h.Write(o.stdout)
	names := make([]string, 0, len(o.files))
	for n := range o.files {
		names = append(names, n)
	}
	sort.Strings(names)
	for _, n := range names {
		fmt.Fprintf(h, "\nFILE %s %d\n", n, len(o.files[n]))
		h.Write(o.files[n])
	}
	return fmt.Sprintf("%x", h.Sum(nil))
}

func (o outcome) describe() string {
	var sb strings.Builder
	fmt.Fprintf(&sb, "exit=%d stdout(%d bytes)=%q", o.exit, len(o.stdout), clip(string(o.stdout), 300))
	names := make([]string, 0, len(o.files))
	for n := range o.files {
		names = append(names, n)
	}
	sort.Strings(names)
	for _, n := range names {
		fmt.Fprintf(&sb, " file %s(%d bytes)=%q", n, len(o.files[n]), clip(string(o.files[n]), 200))
	}
	if o.exit != 0 {
		fmt.Fprintf(&sb, " stderr=%q", clip(o.stderr, 300))
	}
	return sb.String()
}

func clip(s string, n int) string {
	if len(s) > n {
		return s[:n] + "…"
	}
	return s
}

// firstDiff locates the first differing byte of two outputs (for the violation text).
func firstDiff(a, b outcome) string {
	if a.exit != b.exit {
		return fmt.Sprintf("exit status %d vs %d", a.exit, b.exit)
	}
	if !bytes.Equal(a.stdout, b.stdout) {
		return "stdout: " + diffAt(a.stdout, b.stdout)
	}
	for n, x := range a.files {
		y, ok := b.files[n]
		if !ok {
			return "output file " + n + " only in one run"
		}
		if !bytes.Equal(x, y) {
			return "output file " + n + ": " + diffAt(x, y)
		}
	}
	for n := range b.files {
		if _, ok := a.files[n]; !ok {
			return "output file " + n + " only in one run"
		}
	}
	return "identical"
}

func diffAt(x, y []byte) string {
	i := 0
	for i < len(x) && i < len(y) && x[i] == y[i] {
		i++
	}
	lo := i - 60
	if lo < 0 {
		lo = 0
	}
	hx, hy := i+60, i+60
	if hx > len(x) {
		hx = len(x)
	}
	if hy > len(y) {
		hy = len(y)
	}
	return fmt.Sprintf("lengths %d / %d, first difference at byte %d: %q vs %q", len(x), len(y), i, x[lo:hx], y[lo:hy])
}

// run executes the binary in a fresh directory below dir; args may name input files by absolute path.
// leftovers, when set, are written into the working directory of the next run before it starts: the files an
// earlier, longer execution of the same command line left behind (every output file is rewritten from scratch).
var leftovers map[string][]byte

func run(bin, dir string, k int, args []string) outcome {
	wd := filepath.Join(dir, fmt.Sprintf("run%d", k))
	os.MkdirAll(wd, 0755)
	for rel, b := range leftovers {
		p := filepath.Join(wd, rel)
		os.MkdirAll(filepath.Dir(p), 0755)
		os.WriteFile(p, append(append([]byte{}, b...), bytes.Repeat([]byte("left over by an earlier execution\n"), 12)...), 0644)
	}
	leftovers = nil
	cmd := exec.Command(bin, args...)
	cmd.Dir = wd
	cmd.Env = append(os.Environ(), "GORACE=exitcode=66 halt_on_error=1")
	var so, se bytes.Buffer
	cmd.Stdout, cmd.Stderr = &so, &se
	cmd.Stdin = strings.NewReader("")
	err := cmd.Run()
	o := outcome{stdout: so.Bytes(), stderr: se.String(), files: map[string][]byte{}}
	if err != nil {
		o.exit = -1
		if ee, ok := err.(*exec.ExitError); ok {
			o.exit = ee.ExitCode()
		}
	}
	filepath.Walk(wd, func(p string, info os.FileInfo, err error) error {
		if err == nil && !info.IsDir() {
			b, _ := os.ReadFile(p)
			rel, _ := filepath.Rel(wd, p)
			o.files[rel] = b
		}
		return nil
	})
	os.RemoveAll(wd)
	return o
}

// sameTarMembers tells whether two runs differ only inside tar headers: same stdout, exit status and files,
// and every .tar file holds the same members (name, size, mode, type, content) in the same order.
func sameTarMembers(x, y outcome) bool {
	if x.exit != y.exit || !bytes.Equal(x.stdout, y.stdout) || len(x.files) != len(y.files) {
		return false
	}
	list := func(b []byte) (string, bool) {
		var sb strings.Builder
		tr := tar.NewReader(bytes.NewReader(b))
		for {
			h, err := tr.Next()
			if err != nil {
				return sb.String(), err.Error() == "EOF"
			}
			var body bytes.Buffer
			if _, err := body.ReadFrom(tr); err != nil {
				return "", false
			}
			fmt.Fprintf(&sb, "%s|%d|%o|%c|%x\n", h.Name, h.Size, h.Mode, h.Typeflag, sha1.Sum(body.Bytes()))
		}
	}
	for n, xb := range x.files {
		yb, ok := y.files[n]
		if !ok {
			return false
		}
		if strings.HasSuffix(n, ".tar") {
			lx, okx := list(xb)
			ly, oky := list(yb)
			if !okx || !oky || lx != ly || lx == "" {
				return false
			}
		} else if !bytes.Equal(xb, yb) {
			return false
		}
	}
	return true
}

// ---------------------------------------------------------------- inputs

type inputs struct {
	dir                                                                  string
	nt, nt2, ntPhy, aa, orfSeqs, refOrf, pair, part, mapf, mapShift, counts, sites string
	names, aaAli, ntForCodon, ntApp                                      string
	ntRows                                                               gen.Rows
}

func writeFasta(path string, rows gen.Rows) {
	var sb strings.Builder
	for _, r := range rows {
		sb.WriteString(">" + r.Name + "\n" + r.Seq + "\n")
	}
	os.WriteFile(path, []byte(sb.String()), 0644)
}

func tieColumns(r *gen.Rand, n, L int) []string {
	rows := make([][]byte, n)
	for i := range rows {
		rows[i] = make([]byte, L)
	}
	for j := 0; j < L; j++ {
		p := r.Perm(n)
		letters := "ACGT"
		off := r.Intn(4)
		for k, i := range p { // as many ties as the row count allows: each letter used n/4 or n/2 times
			if j%2 == 0 {
				rows[i][j] = letters[(off+k)%4]
			} else {
				rows[i][j] = letters[(off+k%2)%4]
			}
		}
	}
	out := make([]string, n)
	for i := range rows {
		out[i] = string(rows[i])
	}
	return out
}

// mkInputs writes the input files of one case. variant selects the shape.
func mkInputs(r *gen.Rand, dir string, variant int) inputs {
	in := inputs{dir: dir}
	n := []int{8, 4, 12, 6}[variant%4]
	L := []int{60, 33, 120, 81}[variant%4]
	names := make([]string, n)
	for i := range names {
		names[i] = fmt.Sprintf("S%03d", (i*7+3)%n*11+i) // not sorted
	}
	// nucleotide alignment: related rows, gaps, IUPAC, mixed case, then a block of tie columns
	base := r.Str(L, "ACGT")
	tie := tieColumns(r, n, 40)
	rows := make(gen.Rows, n)
	for i := range rows {
		b := []byte(base)
		for j := range b {
			if r.Chance(0.12) {
				b[j] = r.Pick("ACGT")
			}
			if r.Chance(0.03) {
				b[j] = r.Pick("RYSWKMN")
			}
			if r.Chance(0.05) {
				b[j] = '-'
			}
			if variant%2 == 1 && r.Chance(0.1) && b[j] >= 'A' && b[j] <= 'Z' {
				b[j] += 32
			}
		}
		rows[i] = gen.Seq{Name: names[i], Seq: string(b) + tie[i]}
	}
	if n >= 4 {
		rows[n-1].Seq = rows[1].Seq // a duplicate sequence for dedup
	}
	in.ntRows = rows
	in.nt = filepath.Join(dir, "nt.fa")
	writeFasta(in.nt, rows)
	// a second alignment with partly different names for concat / append
	rows2 := make(gen.Rows, n)
	for i := range rows2 {
		nm := names[i]
		if i == 0 {
			nm = "Other"
		}
		rows2[i] = gen.Seq{Name: nm, Seq: r.Str(20, "ACGT-")}
	}
	in.nt2 = filepath.Join(dir, "nt2.fa")
	writeFasta(in.nt2, rows2)
	// same length, other names: for append
	rows3 := make(gen.Rows, 3)
	for i := range rows3 {
		rows3[i] = gen.Seq{Name: fmt.Sprintf("App%d", i), Seq: r.Str(len(rows[0].Seq), "ACGT-")}
	}
	in.ntApp = filepath.Join(dir, "ntapp.fa")
	writeFasta(in.ntApp, rows3)
	// phylip version of the first
	var pb strings.Builder
	fmt.Fprintf(&pb, "   %d   %d\n", n, len(rows[0].Seq))
	for _, q := range rows {
		fmt.Fprintf(&pb, "%s  %s\n", q.Name, q.Seq)
	}
	in.ntPhy = filepath.Join(dir, "nt.phy")
	os.WriteFile(in.ntPhy, []byte(pb.String()), 0644)
	// protein alignment
	abase := r.Str(L/2, gen.AaCore)
	arows := make(gen.Rows, n)
	for i := range arows {
		b := []byte(abase)
		for j := range b {
			if r.Chance(0.15) {
				b[j] = r.Pick(gen.AaCore)
			}
			if r.Chance(0.04) {
				b[j] = '-'
			}
			if r.Chance(0.02) {
				b[j] = 'X'
			}
		}
		arows[i] = gen.Seq{Name: names[i], Seq: string(b)}
	}
	in.aa = filepath.Join(dir, "aa.fa")
	writeFasta(in.aa, arows)
	// unaligned sequences embedding copies of an ORF (phase, phasent, orf)
	orf := "ATGCTG" + func() string {
		var sb strings.Builder
		for k := 0; k < 25; {
			c := r.Str(3, "ACGT")
			if c == "TAA" || c == "TAG" || c == "TGA" {
				continue
			}
			sb.WriteString(c)
			k++
		}
		return sb.String()
	}() + "TAA"
	m := 40 + 20*(variant%3)
	orows := make(gen.Rows, m)
	for i := range orows {
		b := []byte(orf)
		for j := 3; j < len(b); j++ {
			if r.Chance(0.06) {
				b[j] = r.Pick("ACGT")
			}
		}
		s := r.Str(r.Intn(25), "ACGT") + string(b) + r.Str(r.Intn(25), "ACGT")
		if i%5 == 4 {
			s, _ = ref.RevComp(s)
		}
		switch i % 10 {
		case 2: // a long sequence without any start codon (reported as removed), followed by ...
			s = r.Str(r.Range(2500, 4000), "CGT")
		case 3: // ... a short one: several workers finish them in another order than they were read
			s = r.Str(r.Range(40, 80), "CGT")
		}
		orows[i] = gen.Seq{Name: fmt.Sprintf("q%03d", i), Seq: s}
	}
	in.orfSeqs = filepath.Join(dir, "orfseqs.fa")
	writeFasta(in.orfSeqs, orows)
	in.refOrf = filepath.Join(dir, "reforf.fa")
	writeFasta(in.refOrf, gen.Rows{{Name: "ref", Seq: orf}})
	// two sequences for sw
	in.pair = filepath.Join(dir, "pair.fa")
	writeFasta(in.pair, gen.Rows{{Name: "a", Seq: r.Str(40, "ACGT")}, {Name: "b", Seq: r.Str(35, "ACGT")}})
	// partition, name map, counts, site list, name list
	tot := len(rows[0].Seq)
	in.part = filepath.Join(dir, "part.txt")
	os.WriteFile(in.part, []byte(fmt.Sprintf("M1,p1=1-%d\nM2,p2=%d-%d\n", tot/2, tot/2+1, tot)), 0644)
	var mb, cb, nb strings.Builder
	for i, nm := range names {
		fmt.Fprintf(&mb, "%s\tnew%d\n", nm, i)
		fmt.Fprintf(&cb, "%s\t%d\n", nm, 1+i%3)
		if i%2 == 0 {
			nb.WriteString(nm + "\n")
		}
	}
	in.mapf = filepath.Join(dir, "map.txt")
	os.WriteFile(in.mapf, []byte(mb.String()), 0644)
	// a map that shifts the names along the alignment (every new name is the current name of another row)
	var sb2 strings.Builder
	for i, nm := range names {
		fmt.Fprintf(&sb2, "%s\t%s\n", nm, names[(i+1)%len(names)])
	}
	in.mapShift = filepath.Join(dir, "mapshift.txt")
	os.WriteFile(in.mapShift, []byte(sb2.String()), 0644)
	in.counts = filepath.Join(dir, "counts.txt")
	os.WriteFile(in.counts, []byte(cb.String()), 0644)
	in.names = filepath.Join(dir, "names.txt")
	os.WriteFile(in.names, []byte(nb.String()), 0644)
	in.sites = filepath.Join(dir, "sites.txt")
	os.WriteFile(in.sites, []byte("0\n3\n7\n12\n"), 0644)
	// codonalign: gap free nt sequences and the (gapped) alignment of their translations
	cn := 4
	crow := make(gen.Rows, cn)
	arow := make(gen.Rows, cn)
	for i := 0; i < cn; i++ {
		nt := ""
		for k := 0; k < 12; {
			c := r.Str(3, "ACGT")
			if c == "TAA" || c == "TAG" || c == "TGA" {
				continue
			}
			nt += c
			k++
		}
		aa, _ := ref.Translate(nt, 0, 0)
		p := r.Intn(len(aa))
		crow[i] = gen.Seq{Name: fmt.Sprintf("c%d", i), Seq: nt}
		arow[i] = gen.Seq{Name: fmt.Sprintf("c%d", i), Seq: aa[:p] + "-" + aa[p:]}
	}
	in.ntForCodon = filepath.Join(dir, "codon_nt.fa")
	writeFasta(in.ntForCodon, crow)
	in.aaAli = filepath.Join(dir, "codon_aa.fa")
	writeFasta(in.aaAli, arow)
	return in
}

// ---------------------------------------------------------------- command table

type entry struct {
	name   string
	random bool // takes --seed
	args   func(in inputs) []string
}

func a(s ...string) []string { return s }

var table = []entry{
	// randomised commands
	{"random-nt", true, func(in inputs) []string { return a("random", "-n", "5", "-l", "60") }},
	{"random-aa", true, func(in inputs) []string { return a("random", "-a", "-n", "4", "-l", "30", "-p") }},
	{"shuffle-sites", true, func(in inputs) []string { return a("shuffle", "sites", "-i", in.nt, "-r", "0.5") }},
	{"shuffle-sites-rogue", true, func(in inputs) []string {
		return a("shuffle", "sites", "-i", in.nt, "-r", "0.5", "--rogue", "0.3", "--rogue-file", "rogues.txt")
	}},
	{"shuffle-seqs", true, func(in inputs) []string { return a("shuffle", "seqs", "-i", in.nt) }},
	{"shuffle-rogue", true, func(in inputs) []string {
		return a("shuffle", "rogue", "-i", in.nt, "-l", "0.5", "-n", "0.5", "--rogue-file", "rogues.txt")
	}},
	{"shuffle-recomb", true, func(in inputs) []string { return a("shuffle", "recomb", "-i", in.nt, "-l", "0.5", "-n", "0.5") }},
	{"shuffle-recomb-swap", true, func(in inputs) []string {
		return a("shuffle", "recomb", "-i", in.nt, "-l", "0.3", "-n", "0.5", "--swap")
	}},
	{"shuffle-swap", true, func(in inputs) []string { return a("shuffle", "swap", "-i", in.nt, "-r", "0.5") }},
	{"sample-seqs", true, func(in inputs) []string { return a("sample", "seqs", "-i", in.nt, "-n", "3", "-s", "2") }},
	{"sample-sites", true, func(in inputs) []string { return a("sample", "sites", "-i", in.nt, "-l", "10", "-n", "2") }},
	{"sample-sites-scattered", true, func(in inputs) []string {
		return a("sample", "sites", "-i", in.nt, "-l", "10", "-n", "2", "--consecutive=false")
	}},
	{"sample-rarefy", true, func(in inputs) []string {
		return a("sample", "rarefy", "-i", in.nt, "-c", in.counts, "-n", "3", "-r", "2")
	}},
	{"mutate-snvs", true, func(in inputs) []string { return a("mutate", "snvs", "-i", in.nt, "-r", "0.2") }},
	{"mutate-gaps", true, func(in inputs) []string { return a("mutate", "gaps", "-i", in.nt, "-r", "0.2", "-n", "0.5") }},
	{"seqboot", true, func(in inputs) []string { return a("build", "seqboot", "-i", in.nt, "-n", "4", "-o", "boot") }},
	{"seqboot-shuf-frac-phylip", true, func(in inputs) []string {
		return a("build", "seqboot", "-i", in.ntPhy, "-p", "-n", "3", "-o", "boot", "-S", "-f", "0.5")
	}},
	{"seqboot-gz", true, func(in inputs) []string { return a("build", "seqboot", "-i", in.nt, "-n", "3", "-o", "boot", "--gz") }},
	{"seqboot-tar", true, func(in inputs) []string { return a("build", "seqboot", "-i", in.nt, "-n", "3", "-o", "boot", "--tar") }},
	{"distboot", true, func(in inputs) []string { return a("build", "distboot", "-i", in.nt, "-n", "4", "-m", "k2p") }},
	{"distboot-f84-gamma", true, func(in inputs) []string {
		return a("build", "distboot", "-i", in.nt, "-n", "3", "-m", "f84", "--alpha", "0.7", "-r")
	}},
	{"weightboot", true, func(in inputs) []string { return a("build", "weightboot", "-i", in.nt, "-n", "3") }},
	// deterministic commands
	{"reformat-fasta", false, func(in inputs) []string { return a("reformat", "fasta", "-i", in.ntPhy, "-p") }},
	{"reformat-phylip", false, func(in inputs) []string { return a("reformat", "phylip", "-i", in.nt) }},
	// compressed output files (suffix decides): the second run is started 1.1 s after the first one (see the tar entries)
	{"reformat-fasta-gzout", false, func(in inputs) []string { return a("reformat", "fasta", "-i", in.nt, "-o", "out.fa.gz") }},
	{"reformat-phylip-xzout", false, func(in inputs) []string { return a("reformat", "phylip", "-i", in.nt, "-o", "out.phy.xz") }},
	{"shuffle-sites-gzout", true, func(in inputs) []string { return a("shuffle", "sites", "-i", in.nt, "-o", "out.fa.gz") }},
	{"reformat-phylip-strict", false, func(in inputs) []string {
		return a("reformat", "phylip", "-i", in.nt, "--output-strict", "--one-line")
	}},
	{"reformat-nexus", false, func(in inputs) []string { return a("reformat", "nexus", "-i", in.nt) }},
	{"reformat-clustal", false, func(in inputs) []string { return a("reformat", "clustal", "-i", in.nt) }},
	{"reformat-paml", false, func(in inputs) []string { return a("reformat", "paml", "-i", in.nt) }},
	{"reformat-tnt", false, func(in inputs) []string { return a("reformat", "tnt", "-i", in.nt) }},
	{"stats", false, func(in inputs) []string { return a("stats", "-i", in.nt) }},
	{"stats-aa", false, func(in inputs) []string { return a("stats", "-i", in.aa) }},
	{"stats-per-sequences", false, func(in inputs) []string { return a("stats", "-i", in.nt, "--per-sequences") }},
	{"stats-alleles", false, func(in inputs) []string { return a("stats", "alleles", "-i", in.nt) }},
	{"stats-alphabet", false, func(in inputs) []string { return a("stats", "alphabet", "-i", in.nt) }},
	{"stats-char", false, func(in inputs) []string { return a("stats", "char", "-i", in.nt) }},
	{"stats-char-per-sites", false, func(in inputs) []string { return a("stats", "char", "-i", in.nt, "--per-sites") }},
	{"stats-char-per-sequences", false, func(in inputs) []string { return a("stats", "char", "-i", in.nt, "--per-sequences") }},
	{"stats-gaps", false, func(in inputs) []string { return a("stats", "gaps", "-i", in.nt) }},
	{"stats-gaps-unique", false, func(in inputs) []string { return a("stats", "gaps", "-i", in.nt, "--unique") }},
	{"stats-length", false, func(in inputs) []string { return a("stats", "length", "-i", in.nt) }},
	{"stats-maxchar", false, func(in inputs) []string { return a("stats", "maxchar", "-i", in.nt) }},
	{"stats-maxchar-ignore", false, func(in inputs) []string {
		return a("stats", "maxchar", "-i", in.nt, "--ignore-gaps", "--ignore-n")
	}},
	{"stats-mutations", false, func(in inputs) []string {
		return a("stats", "mutations", "-i", in.nt, "--ref-sequence", in.ntRows[0].Name)
	}},
	{"stats-mutations-unique", false, func(in inputs) []string { return a("stats", "mutations", "-i", in.nt, "--unique") }},
	{"stats-mutations-list", false, func(in inputs) []string {
		return a("stats", "mutations", "list", "-i", in.nt, "--ref-sequence", in.ntRows[1].Name)
	}},
	{"stats-nalign", false, func(in inputs) []string { return a("stats", "nalign", "-i", in.ntPhy, "-p") }},
	{"stats-nseq", false, func(in inputs) []string { return a("stats", "nseq", "-i", in.nt) }},
	{"stats-taxa", false, func(in inputs) []string { return a("stats", "taxa", "-i", in.nt) }},
	{"consensus", false, func(in inputs) []string { return a("consensus", "-i", in.nt) }},
	{"consensus-ignore", false, func(in inputs) []string { return a("consensus", "-i", in.nt, "--ignore-gaps", "--ignore-n") }},
	{"consensus-aa", false, func(in inputs) []string { return a("consensus", "-i", in.aa) }},
	{"distance-rawdist", false, func(in inputs) []string { return a("compute", "distance", "-i", in.nt, "-m", "rawdist") }},
	{"distance-pdist", false, func(in inputs) []string {
		return a("compute", "distance", "-i", in.nt, "-m", "pdist", "--gap-mut", "1")
	}},
	{"distance-jc", false, func(in inputs) []string { return a("compute", "distance", "-i", in.nt, "-m", "jc") }},
	{"distance-k2p", false, func(in inputs) []string { return a("compute", "distance", "-i", in.nt, "-m", "k2p", "-r") }},
	{"distance-f81", false, func(in inputs) []string { return a("compute", "distance", "-i", in.nt, "-m", "f81") }},
	{"distance-f84", false, func(in inputs) []string { return a("compute", "distance", "-i", in.nt, "-m", "f84", "--alpha", "0.5") }},
	{"distance-tn93", false, func(in inputs) []string { return a("compute", "distance", "-i", in.nt, "-m", "tn93") }},
	{"distance-average", false, func(in inputs) []string { return a("compute", "distance", "-i", in.nt, "-m", "k2p", "-a") }},
	{"distance-lg", false, func(in inputs) []string { return a("compute", "distance", "-i", in.aa, "-m", "lg") }},
	{"entropy", false, func(in inputs) []string { return a("compute", "entropy", "-i", in.nt) }},
	{"entropy-average", false, func(in inputs) []string { return a("compute", "entropy", "-i", in.nt, "-a", "-g") }},
	{"pssm", false, func(in inputs) []string { return a("compute", "pssm", "-i", in.nt, "-n", "1", "-c", "0.5") }},
	{"pssm-log", false, func(in inputs) []string { return a("compute", "pssm", "-i", in.aa, "-n", "3", "-l") }},
	{"pssm-data", false, func(in inputs) []string { return a("compute", "pssm", "-i", in.nt, "-n", "2") }},
	{"pssm-logo", false, func(in inputs) []string { return a("compute", "pssm", "-i", in.nt, "-n", "4", "-c", "0.1") }},
	{"clean-sites", false, func(in inputs) []string { return a("clean", "sites", "-i", in.nt, "-c", "0", "-q") }},
	{"clean-sites-maj", false, func(in inputs) []string {
		return a("clean", "sites", "-i", in.nt, "--char", "MAJ", "-c", "0.5", "--positions", "kept.txt", "--positions-rm", "removed.txt")
	}},
	{"clean-sites-ends", false, func(in inputs) []string { return a("clean", "sites", "-i", in.nt, "--ends", "-c", "0.1") }},
	{"clean-seqs", false, func(in inputs) []string { return a("clean", "seqs", "-i", in.nt, "-c", "0.05") }},
	{"mask", false, func(in inputs) []string { return a("mask", "-i", in.nt, "-s", "2", "-l", "7") }},
	{"mask-maj", false, func(in inputs) []string { return a("mask", "-i", in.nt, "-s", "0", "-l", "200", "--replace", "MAJ") }},
	{"mask-unique", false, func(in inputs) []string { return a("mask", "-i", in.nt, "--unique", "--at-most", "2") }},
	{"dedup", false, func(in inputs) []string { return a("dedup", "-i", in.nt, "-l", "dedup.log") }},
	{"compress", false, func(in inputs) []string { return a("compress", "-i", in.nt, "--weight-out", "weights.txt") }},
	{"concat", false, func(in inputs) []string { return a("concat", "-i", in.nt, in.nt2, "-l", "concat.log") }},
	{"append", false, func(in inputs) []string { return a("append", "-i", in.nt, in.ntApp) }},
	{"sort", false, func(in inputs) []string { return a("sort", "-i", in.nt) }},
	{"translate", false, func(in inputs) []string { return a("translate", "-i", in.nt, "--phase", "1") }},
	{"translate-3phases", false, func(in inputs) []string {
		return a("translate", "-i", in.orfSeqs, "--phase", "-1", "--unaligned", "--genetic-code", "mitov")
	}},
	{"revcomp", false, func(in inputs) []string { return a("revcomp", "-i", in.nt) }},
	{"diff", false, func(in inputs) []string { return a("diff", "-i", in.nt) }},
	{"diff-counts", false, func(in inputs) []string { return a("diff", "-i", in.nt, "--counts") }},
	{"subseq", false, func(in inputs) []string { return a("subseq", "-i", in.nt, "-s", "3", "-l", "20") }},
	{"subseq-step", false, func(in inputs) []string {
		return a("subseq", "-i", in.nt, "-s", "0", "-l", "10", "--step", "15", "-o", "win.fa")
	}},
	{"subseq-ref", false, func(in inputs) []string {
		return a("subseq", "-i", in.nt, "-s", "2", "-l", "10", "--ref-seq", in.ntRows[0].Name)
	}},
	{"subsites", false, func(in inputs) []string { return a("subsites", "-i", in.nt, "--sitefile", in.sites) }},
	{"subsites-informative", false, func(in inputs) []string { return a("subsites", "-i", in.nt, "--informative") }},
	{"subset", false, func(in inputs) []string { return a("subset", "-i", in.nt, "-f", in.names) }},
	{"split", false, func(in inputs) []string { return a("split", "-i", in.nt, "--partition", in.part, "-o", "part") }},
	{"trim-name", false, func(in inputs) []string { return a("trim", "name", "-i", in.nt, "-n", "4", "-m", "map.out") }},
	{"trim-name-auto", false, func(in inputs) []string { return a("trim", "name", "-i", in.nt, "-a", "-m", "map.out") }},
	{"trim-seq", false, func(in inputs) []string { return a("trim", "seq", "-i", in.nt, "-n", "5", "-s") }},
	{"rename", false, func(in inputs) []string { return a("rename", "-i", in.nt, "-m", in.mapf) }},
	{"rename-regexp-colliding-names", false, func(in inputs) []string {
		return a("rename", "-i", in.nt, "-e", "S(\\d)\\d+", "-b", "T$1", "-m", "map.out")
	}},
	{"rename-shifted-names", false, func(in inputs) []string { return a("rename", "-i", in.nt, "-m", in.mapShift) }},
	{"rename-shifted-names-phylip", false, func(in inputs) []string { return a("rename", "-i", in.ntPhy, "-p", "-m", in.mapShift) }},
	{"rename-regexp", false, func(in inputs) []string {
		return a("rename", "-i", in.nt, "-e", "S(\\d+)", "-b", "T$1", "-m", "map.out")
	}},
	{"replace", false, func(in inputs) []string { return a("replace", "-i", in.nt, "-s", "AC", "-n", "NN") }},
	{"tolower", false, func(in inputs) []string { return a("tolower", "-i", in.nt) }},
	{"toupper", false, func(in inputs) []string { return a("toupper", "-i", in.nt) }},
	{"transpose", false, func(in inputs) []string { return a("transpose", "-i", in.nt) }},
	{"unalign", false, func(in inputs) []string { return a("unalign", "-i", in.nt) }},
	{"addid", false, func(in inputs) []string { return a("addid", "-i", in.nt, "-n", "pre_") }},
	{"identical", false, func(in inputs) []string { return a("identical", "-i", in.nt, "-c", in.nt2) }},
	{"divide", false, func(in inputs) []string { return a("divide", "-i", in.ntPhy, "-p", "-o", "div", "-f") }},
	{"orf", false, func(in inputs) []string { return a("orf", "-i", in.orfSeqs, "--reverse") }},
	{"phase", false, func(in inputs) []string {
		return a("phase", "-i", in.orfSeqs, "--unaligned", "--ref-orf", in.refOrf, "--reverse", "--aa-output", "aa.fa", "-l", "phase.log")
	}},
	{"phase-noref-cutend", false, func(in inputs) []string {
		return a("phase", "-i", in.orfSeqs, "--unaligned", "--cut-end", "--aa-output", "aa.fa")
	}},
	{"phasent", false, func(in inputs) []string {
		return a("phasent", "-i", in.orfSeqs, "--unaligned", "--ref-orf", in.refOrf, "--reverse", "--aa-output", "aa.fa", "--nt-output", "nt.fa", "-l", "phase.log")
	}},
	{"sw", false, func(in inputs) []string { return a("sw", "-i", in.pair, "-l", "sw.log") }},
	{"codonalign", false, func(in inputs) []string { return a("codonalign", "-i", in.aaAli, "-f", in.ntForCodon) }},
}

var threadsQuick = []string{"1", "4"}
var threadsThorough = []string{"1", "2", "4", "16"}

func caseDir(c *mon.Case) string {
	d := filepath.Join(scratchRoot(), fmt.Sprintf("c11-%s-%d-%d", c.Sub, c.Idx, os.Getpid()))
	os.RemoveAll(d)
	os.MkdirAll(d, 0755)
	return d
}

func runCommands(c *mon.Case) {
	r := c.R
	e := table[c.Idx%len(table)]
	variant := c.Idx / len(table)
	dir := caseDir(c)
	defer os.RemoveAll(dir)
	in := mkInputs(r, dir, variant)
	seed := fmt.Sprint(1 + r.Intn(1000000))
	if e.random && r.Chance(0.3) { // every value but -1 ("no seed") is a seed
		seed = r.PickStr([]string{"0", "-2", "-987654321", "-9223372036854775808", "9223372036854775807"})
		c.Count("seed:zero-negative-or-extreme")
	}
	args := e.args(in)
	if e.random {
		args = append(args, "--seed="+seed)
	}
	threads := threadsQuick
	reps := 2
	if c.Tier == "thorough" {
		threads, reps = threadsThorough, 3
	}
	shown := strings.ReplaceAll(strings.Join(args, " "), dir+"/", "")
	c.Input(map[string]interface{}{"entry": e.name, "args": shown, "input_variant": variant, "threads": threads, "repetitions": reps})
	bin := binary()
	var first outcome
	k := 0
	tarNoted := false
	for _, t := range threads {
		for rep := 0; rep < reps; rep++ {
			if k == 1 && (strings.HasSuffix(e.name, "-tar") || strings.HasSuffix(e.name, "zout") || strings.HasSuffix(e.name, "-gz")) {
				// drives the recorded tar time stamp finding on every run and lets a time stamp in any other compressed
				// container show; decides nothing (identical bytes are demanded whatever the delay)
				time.Sleep(1100 * time.Millisecond)
			}
			if k == len(threads)*reps-1 && k > 0 && len(first.files) > 0 {
				leftovers = first.files // the last run starts in a directory that already holds (longer) output files
				c.Count("commands:run-over-leftover-files")
			}
			o := run(bin, dir, k, append(append([]string{}, args...), "-t", t))
			if k == 0 {
				first = o
			} else if o.digest() != first.digest() {
				if strings.HasSuffix(e.name, "-tar") && sameTarMembers(first, o) {
					if !tarNoted {
						c.Failf("not-reproducible:"+e.name+":header-timestamps-only", "goalign %s\nthe tar archives of run 0 and run %d hold the same members (names, sizes, modes, contents) but differ in their bytes: %s", shown, k, firstDiff(first, o))
						tarNoted = true
					}
					k++
					continue
				}
				c.Failf("not-reproducible:"+e.name, "goalign %s\nrun 0 (-t %s) and run %d (-t %s) differ: %s\nrun 0: %s\nrun %d: %s", shown, threads[0], k, t, firstDiff(first, o), first.describe(), k, o.describe())
				return
			}
			k++
		}
	}
	c.Add("executions", k)
	if first.exit != 0 {
		c.Count("entry-exits-nonzero:" + e.name)
		c.Note("exit=%d stderr=%s", first.exit, clip(first.stderr, 300))
		return
	}
	size := len(first.stdout)
	for _, b := range first.files {
		size += len(b)
	}
	if size == 0 {
		c.Count("entry-empty-output:" + e.name)
		return
	}
	// does the output depend on what it should depend on? (a command that ignores its seed / input proves nothing)
	var other outcome
	if e.random {
		a2 := e.args(in)
		a2 = append(a2, "--seed", fmt.Sprint(7+r.Intn(1000000)+1000000), "-t", "1")
		other = run(bin, dir, k, a2)
	} else {
		d2 := filepath.Join(dir, "alt")
		os.MkdirAll(d2, 0755)
		in2 := mkInputs(r, d2, variant+1)
		other = run(bin, dir, k, append(e.args(in2), "-t", "1"))
		// a deterministic command must not depend on the seed either
		o3 := run(bin, dir, k+1, append(append([]string{}, args...), "-t", "2", "--seed="+seed))
		if o3.digest() != first.digest() {
			c.Failf("not-reproducible:"+e.name, "goalign %s\nthe command involves no randomness but its output changes when --seed %s is given: %s", shown, seed, firstDiff(first, o3))
			return
		}
	}
	c.Count("entry-ok:" + e.name)
	if other.digest() != first.digest() {
		c.NonTrivial(e.name, fmt.Sprint(variant), seed)
	} else {
		c.Count("entry-insensitive:" + e.name)
	}
	c.Note("exit=0, %d output bytes, %d runs identical", size, k)
}

// ---------------------------------------------------------------- reformat chains

type fmtSpec struct {
	name     string
	writeArg []string // after "reformat"
	readArg  []string // input format flags
}

var chainFormats = []fmtSpec{
	{"fasta", a("fasta"), nil},
	{"phylip", a("phylip"), a("-p")},
	{"phylip-strict", a("phylip", "--output-strict"), a("-p", "--input-strict")},
	{"phylip-oneline", a("phylip", "--one-line"), a("-p")},
	{"phylip-noblock", a("phylip", "--no-block"), a("-p")},
	{"phylip-strict-oneline-noblock", a("phylip", "--output-strict", "--one-line", "--no-block"), a("-p", "--input-strict")},
	{"nexus", a("nexus"), a("-x")},
	{"clustal", a("clustal"), a("-u")},
}

func runChains(c *mon.Case) {
	r := c.R
	dir := caseDir(c)
	defer os.RemoveAll(dir)
	n := r.Range(1, 8)
	L := r.PickInt(gen.BoundaryLens)
	alpha := "ACGTacgtRYKMSWBDHVN-?"
	if r.Chance(0.4) {
		alpha = gen.AaCore + gen.AaLower + "BZX-*?"
	}
	// the --alphabet option, given to every command of the chain: needed for peptides made of letters that are
	// also nucleotide codes (auto-detection says nucleotides)
	var alphaFlag []string
	switch r.Intn(5) {
	case 0:
		alpha = "ACGTDKSHMNVWYBRX-"
		alphaFlag = a("--alphabet", "aa")
		c.Count("chain:alphabet-aa-on-ambiguous-letters")
	case 1:
		if strings.HasPrefix(alpha, "ACGT") {
			alphaFlag = a("--alphabet", "nt")
		} else {
			alphaFlag = a("--alphabet", "aa")
		}
		c.Count("chain:alphabet-given")
	}
	// a last block of residues that spells a number for strconv.ParseFloat (NAN, INF, INFINITY are residues)
	tailWord := ""
	if len(alphaFlag) == 0 && r.Chance(0.12) {
		if strings.HasPrefix(alpha, "ACGT") {
			tailWord = r.PickStr([]string{"NAN", "nan", "NaN"})
		} else {
			tailWord = r.PickStr([]string{"INF", "NAN", "INFINITY", "inf"})
		}
		L = 10*r.Range(0, 12) + len(tailWord) // the word is a block of its own in phylip (10 residue blocks)
		c.Count("chain:last-block-spells-a-float")
	}
	rows := make(gen.Rows, n)
	for i := range rows {
		q := r.Str(L, alpha)
		if tailWord != "" && (i == 0 || r.Bool()) {
			q = q[:L-len(tailWord)] + tailWord
		}
		rows[i] = gen.Seq{Name: r.Str(r.Range(1, 9), "abcXYZ019_") + gen.Itoa(i), Seq: q}
	}
	if r.Chance(0.15) {
		// names of at most 10 characters but more than 10 bytes (the strict phylip writer cuts names after 10
		// characters: such a name must survive a strict step unchanged)
		for i := range rows {
			pre := []rune(r.Str(r.Range(4, 6), "abcXYZ019_"))
			for k := 0; k < 3; k++ {
				pre = append(pre, []rune("éß日ñ")[r.Intn(4)])
			}
			rows[i].Name = string(pre) + gen.Itoa(i)
		}
		c.Count("chain:names-over-10-bytes-within-10-characters")
	}
	src := filepath.Join(dir, "src.fa")
	writeFasta(src, rows)
	steps := r.Range(2, 5)
	pick := func() int { return r.Intn(len(chainFormats)) }
	if len(alphaFlag) > 0 && alpha == "ACGTDKSHMNVWYBRX-" {
		// the formats whose text depends on the alphabet (nexus datatype, clustal conservation line) and two neutral ones
		pick = func() int { return []int{0, 1, 6, 7, 6, 7}[r.Intn(6)] }
	}
	chain := []int{pick()}
	for len(chain) < steps {
		chain = append(chain, pick())
	}
	chain = append(chain, chain[0])
	names := make([]string, len(chain))
	for i, k := range chain {
		names[i] = chainFormats[k].name
	}
	c.Input(map[string]interface{}{"rows": rows, "chain": names, "alphabet_option": alphaFlag})
	bin := binary()
	// the starting file is written by goalign itself
	cur := filepath.Join(dir, "f0")
	o := run(bin, dir, 0, append(append(append(a("reformat"), chainFormats[chain[0]].writeArg...), alphaFlag...), "-i", src, "-o", cur))
	if o.exit != 0 {
		c.Failf("chain:reformat-fails", "cannot write the starting %s file: %s", names[0], o.describe())
		return
	}
	start, _ := os.ReadFile(cur)
	prev := chainFormats[chain[0]]
	for i := 1; i < len(chain); i++ {
		f := chainFormats[chain[i]]
		next := filepath.Join(dir, fmt.Sprintf("f%d", i))
		args := append(append(append(append(a("reformat"), f.writeArg...), prev.readArg...), alphaFlag...), "-i", cur, "-o", next, "-t", r.PickStr([]string{"1", "4"}))
		o := run(bin, dir, i, args)
		if o.exit != 0 {
			c.Failf("chain:reformat-fails", "step %d (%s -> %s) fails: %s\ninput file: %q", i, prev.name, f.name, o.describe(), clip(string(mustRead(cur)), 600))
			return
		}
		cur, prev = next, f
	}
	end, _ := os.ReadFile(cur)
	if !bytes.Equal(start, end) {
		c.Failf("chain:bytes-differ", "chain %v does not return the starting bytes: %s", names, diffAt(start, end))
		return
	}
	c.Count("chain-ok")
	for _, nm := range names[1:] {
		c.Count("chain-format:" + nm)
	}
	if n >= 2 {
		c.NonTrivial(rows.Key(), strings.Join(names, ">"))
	}
}

func mustRead(p string) []byte { b, _ := os.ReadFile(p); return b }

// ---------------------------------------------------------------- bootstrap consistency

var bootModels = []string{"pdist", "jc", "k2p", "f81", "f84", "tn93", "rawdist", "lg", "wag", "jtt"}

func runBoot(c *mon.Case) {
	r := c.R
	dir := caseDir(c)
	defer os.RemoveAll(dir)
	in := mkInputs(r, dir, c.Idx)
	model := bootModels[c.Idx%len(bootModels)]
	seed := fmt.Sprint(1 + r.Intn(1000000))
	nb := r.Range(2, 5)
	extra := []string{}
	if r.Chance(0.3) {
		extra = append(extra, "-r")
	}
	if r.Chance(0.3) && model != "pdist" && model != "rawdist" {
		extra = append(extra, "--alpha", "0.8")
	}
	protein := model == "lg" || model == "wag" || model == "jtt"
	if protein {
		in.nt = in.aa // same checks on the protein alignment (gaps and X in some rows only)
		if c.Idx%2 == 0 && len(extra) == 0 {
			extra = append(extra, "-r")
		}
		// the alphabet is stated on every command line: a short bootstrap replicate of a protein alignment may
		// hold only letters that are also nucleotide codes (auto-detection then says nucleotides and the protein
		// model is refused - met at thorough seed 1, case 337; a harness matter, not a reproducibility one)
		extra = append(extra, "--alphabet", "aa")
	}
	c.Input(map[string]interface{}{"model": model, "seed": seed, "nboot": nb, "extra": extra, "rows": in.ntRows, "protein": protein})
	bin := binary()
	db := run(bin, dir, 0, append(a("build", "distboot", "-i", in.nt, "-n", fmt.Sprint(nb), "-m", model, "--seed", seed, "-t", r.PickStr([]string{"1", "3"})), extra...))
	if db.exit != 0 {
		c.Count("boot:distboot-exits-nonzero")
		c.Note("distboot: %s", db.describe())
		return
	}
	sbDir := filepath.Join(dir, "sb")
	os.MkdirAll(sbDir, 0755)
	sb := exec.Command(bin, "build", "seqboot", "-i", in.nt, "-n", fmt.Sprint(nb), "-o", filepath.Join(sbDir, "boot"), "--seed", seed, "-t", r.PickStr([]string{"1", "3"}))
	if out, err := sb.CombinedOutput(); err != nil {
		c.Count("boot:seqboot-exits-nonzero")
		c.Note("seqboot: %v %s", err, out)
		return
	}
	var cat []byte
	for k := 0; k < nb; k++ {
		f := filepath.Join(sbDir, fmt.Sprintf("boot%d.fa", k))
		if _, err := os.Stat(f); err != nil {
			c.Failf("boot:replicate-file-missing", "seqboot did not write %s (files: %v)", filepath.Base(f), ls(sbDir))
			return
		}
		o := run(bin, dir, 10+k, append(a("compute", "distance", "-i", f, "-m", model, "-t", "1"), extra...))
		if o.exit != 0 {
			c.Failf("boot:distance-fails", "compute distance on replicate %d fails: %s", k, o.describe())
			return
		}
		cat = append(cat, o.stdout...)
	}
	if !bytes.Equal(cat, db.stdout) {
		c.Failf("boot:distboot-differs-from-seqboot+distance", "model %s seed %s n %d %v: %s", model, seed, nb, extra, diffAt(db.stdout, cat))
		return
	}
	c.Count("boot-ok:" + model)
	c.NonTrivial(model, seed, in.ntRows.Key())
}

func ls(d string) []string {
	es, _ := os.ReadDir(d)
	var out []string
	for _, e := range es {
		out = append(out, e.Name())
	}
	return out
}

// ---------------------------------------------------------------- race detector on the CLI (thorough)

func runRaceCLI(c *mon.Case) {
	r := c.R
	e := table[c.Idx%len(table)]
	dir := caseDir(c)
	defer os.RemoveAll(dir)
	in := mkInputs(r, dir, c.Idx/len(table))
	args := e.args(in)
	if e.random {
		args = append(args, "--seed", "12345")
	}
	args = append(args, "-t", r.PickStr([]string{"2", "4", "8"}))
	shown := strings.ReplaceAll(strings.Join(args, " "), dir+"/", "")
	c.Input(map[string]interface{}{"entry": e.name, "args": shown})
	o := run(raceBinary(), dir, 0, args)
	if o.exit == 66 || strings.Contains(o.stderr, "WARNING: DATA RACE") {
		c.Failf("race-cli:"+e.name, "goalign %s (binary built with -race) reports a data race:\n%s", shown, clip(o.stderr, 4000))
		return
	}
	c.Count("race-cli-runs")
	c.NonTrivial(e.name, fmt.Sprint(c.Idx/len(table)))
}

func main() {
	mon.SetNote("rule", fmt.Sprintf("commands: case = one of %d command table entries (22 seeded randomised commands, the others deterministic; flags cover reformat x6, stats and its 11 sub-commands, consensus, 9 distance models, entropy, pssm, clean, mask, dedup, compress, concat, append, sort, translate, revcomp, diff, subseq, subsites, subset, split, trim, rename, replace, case, transpose, unalign, addid, identical, divide, orf, phase, phasent, sw, codonalign, seqboot plain/gz/tar, distboot, weightboot) x one of 4 generated input shapes (nucleotide alignment with gaps, IUPAC codes, mixed case and 40 tie columns; protein alignment; 40-80 unaligned sequences embedding mutated copies of an ORF; ...), executed with the freshly built binary 2 (3) times per --threads value in {1,4} ({1,2,4,16}): stdout, exit status and every output file must be byte-identical; a deterministic command is also run with --seed and must not change. chains: a goalign-written file in one of 8 format/option sets is reformatted through 2-5 random formats and back: bytes equal. boot: distboot --seed S == concatenation of compute distance over the files of seqboot --seed S, 7 models. Non-trivial = the command succeeds with non-empty output that changes with another seed (randomised) / another input (deterministic); distinct = (entry, input, seed).", len(table)))
	mon.SetNote("assumptions", "stderr is not output (it carries progress / log text); only stdout, exit status and the files created in the run's own directory are compared;; runs of the same case share one input directory and differ only in --threads and repetition;; an entry that exits non-zero on every run is not a reproducibility violation: it is counted, and the per-entry floor makes the check inconclusive instead of passing silently")
	for _, e := range table {
		mon.Floor("entry-ok:"+e.name, 1)
	}
	mon.Floor("chain-ok", 20)
	for _, m := range bootModels {
		mon.Floor("boot-ok:"+m, 1)
	}
	mon.Main("C11", []mon.Sub{
		{Name: "commands", Quick: 3 * len(table), Thorough: 8 * len(table), Run: runCommands},
		{Name: "chains", Quick: 240, Thorough: 4000, Run: runChains},
		{Name: "boot", Quick: 40, Thorough: 400, Run: runBoot},
		{Name: "race-cli", Quick: 0, Thorough: 2 * len(table), Run: runRaceCLI},
	})
}
