// C08 monitor: (A) metamorphic relations between distance matrices of transformed
// alignments, (B) schedule exploration of dna.DistMatrix under the race detector
// through a wrapping DistModel that records events and perturbs the schedule,
// (C) enumeration of model-evaluation faults with a goroutine-dump deadlock probe.
package main

import (
	"errors"
	"fmt"
	"math"
	"regexp"
	"runtime"
	"sort"
	"strings"
	"sync"
	"sync/atomic"
	"time"

	"github.com/evolbioinfo/goalign/align"
	"github.com/evolbioinfo/goalign/distance/dna"

	"verif/lib/conc"
	"verif/lib/gen"
	"verif/lib/h"
	"verif/lib/mon"
	"verif/lib/ref"
)

var models = []string{"rawdist", "pdist", "jc", "k2p", "f81", "f84", "tn93"}

func mkModel(o ref.NtOpts) dna.DistModel {
	m, err := dna.Model(o.Model, o.RmGaps)
	if err != nil {
		panic(err)
	}
	switch mm := m.(type) {
	case *dna.PDistModel:
		mm.SetCountGapMutations(o.GapMut)
		mm.SetRemoveAmbiguous(o.RmAmbig)
	case *dna.RawDistModel:
		mm.SetCountGapMutations(o.GapMut)
	}
	return m
}

func mkAl(rows []string) align.Alignment {
	g := make(gen.Rows, len(rows))
	for i, s := range rows {
		g[i] = gen.Seq{Name: "s" + gen.Itoa(i), Seq: s}
	}
	return h.MkAlign(g, align.NUCLEOTIDS)
}

func genRows(r *gen.Rand, maxN, maxL int) []string {
	n := r.Range(2, maxN)
	L := r.Range(1, maxL)
	alpha := []string{"ACGT", "ACGT", "ACGTN", "ACGTRYSWKMBDHVN", "ACGTacgt"}[r.Intn(5)]
	base := r.Str(L, alpha)
	rows := make([]string, n)
	rate := r.PickF([]float64{0, 0.05, 0.2, 0.5, 0.9})
	for i := range rows {
		b := []byte(base)
		for j := range b {
			if r.Chance(rate) {
				b[j] = "ACGT"[r.Intn(4)]
			}
		}
		if r.Chance(0.4) {
			for k, m := 0, r.Intn(1+L/4); k < m; k++ {
				b[k] = '-'
			}
			for k, m := 0, r.Intn(1+L/4); k < m; k++ {
				b[L-1-k] = '-'
			}
			if r.Bool() {
				b[r.Intn(L)] = '-'
			}
		}
		rows[i] = string(b)
	}
	if r.Chance(0.3) {
		rows[n-1] = rows[0]
	}
	if L%4 == 0 && r.Chance(0.25) {
		// two rows at exactly 3/4 differences (infinite raw JC69 distance), upper case and gap free
		a := r.Str(L, "ACGT")
		i, j := r.Intn(n), r.Intn(n)
		if i != j {
			rows[i], rows[j] = a, exactlySaturated(r, a)
		}
	}
	return rows
}

// exactlySaturated returns a copy of s (over ACGT) in which exactly three positions out of four hold another
// nucleotide: the observed proportion of differences is exactly 3/4, where the JC69 logarithm is log(0)
// (an infinite, not a NaN, raw distance).
func exactlySaturated(r *gen.Rand, s string) string {
	b := []byte(s)
	p := r.Perm(len(b))
	for _, j := range p[:3*len(b)/4] {
		for {
			ch := "ACGT"[r.Intn(4)]
			if ch != b[j] {
				b[j] = ch
				break
			}
		}
	}
	return string(b)
}

func genOpts(r *gen.Rand, L int, intWeights bool) ref.NtOpts {
	o := ref.NtOpts{Model: models[r.Intn(len(models))]}
	if r.Chance(0.4) {
		o.Gamma = true
		o.Alpha = r.PickF([]float64{0.3, 0.5, 0.7, 1, 2.5})
	}
	o.RmGaps = r.Chance(0.3)
	if o.Model == "pdist" || o.Model == "rawdist" {
		o.GapMut = r.Intn(3)
	}
	if o.Model == "pdist" {
		o.RmAmbig = r.Chance(0.4)
	}
	if r.Chance(0.4) {
		o.Weights = make([]float64, L)
		for i := range o.Weights {
			if intWeights {
				o.Weights[i] = float64(r.Range(1, 4))
			} else {
				o.Weights[i] = float64(r.Range(1, 12)) / 4
			}
		}
	}
	return o
}

func dist(al align.Alignment, o ref.NtOpts, cpus int) ([][]float64, error) {
	return dna.DistMatrix(al, o.Weights, mkModel(o), -1, -1, -1, -1, o.Gamma, o.Alpha, cpus)
}

// illConditioned: some pair sits on a singularity of the estimator (rounding decides): relations are not asked there.
func illConditioned(rows []string, o ref.NtOpts) bool {
	for i := range rows {
		for j := i + 1; j < len(rows); j++ {
			for _, rd := range []ref.Reading{{RmGapsStrict: true, FreqWithGaps: true}} {
				p := ref.NtDistPair(rows, i, j, o, rd)
				if p.IllConditioned() || (p.Defined && math.Abs(p.MinArg) < 1e-4) {
					return true
				}
			}
		}
	}
	return false
}

func transposed(m [][]float64) [][]float64 {
	t := make([][]float64, len(m))
	for i := range t {
		t[i] = make([]float64, len(m))
		for j := range t[i] {
			t[i][j] = m[j][i]
		}
	}
	return t
}

func sameMatrix(a, b [][]float64, perm []int, scale float64) string {
	if len(a) != len(b) {
		return fmt.Sprintf("sizes %d vs %d", len(a), len(b))
	}
	for i := range a {
		for j := range a {
			x := a[i][j] * scale
			pi, pj := i, j
			if perm != nil {
				pi, pj = perm[i], perm[j]
			}
			y := b[pi][pj]
			if math.IsNaN(x) != math.IsNaN(y) || math.IsInf(x, 0) != math.IsInf(y, 0) {
				return fmt.Sprintf("entry (%d,%d): %v vs %v", i, j, x, y)
			}
			if math.IsNaN(x) || math.IsInf(x, 0) {
				continue
			}
			if !ref.Close(x, y, 1e-9, 1e-12) {
				return fmt.Sprintf("entry (%d,%d): %v vs %v", i, j, x, y)
			}
		}
	}
	return ""
}

// ---- A: metamorphic ---------------------------------------------------------

func runMeta(c *mon.Case) {
	r := c.R
	rows := genRows(r, 6, 40)
	L := len(rows[0])
	o := genOpts(r, L, true)
	rel := []string{"unit-weights", "col-permutation", "replication", "revcomp", "row-permutation", "raw-scaling", "ranges-vs-full"}[r.Intn(7)]
	if o.GapMut == 1 && (rel == "col-permutation" || rel == "replication" || rel == "raw-scaling") {
		rel = "revcomp" // the internal-gap mode depends on column order by definition
	}
	if rel == "raw-scaling" {
		o.Model = "rawdist"
		o.Gamma = false
	}
	// every second case: ONE model object serves all the DistMatrix calls of the relation, as `compute distance`
	// (one object for all the alignments of its input) and `build distboot` (one object for all the replicates)
	// do; the other cases build a fresh object per call. The case index decides, so that the generated inputs
	// are those of the fresh-object variant.
	reuse := c.Idx%2 == 1
	c.Input(map[string]interface{}{"rows": rows, "opts": o, "relation": rel, "one_model_object_for_all_calls": reuse})
	if illConditioned(rows, o) {
		c.Count("skipped:ill-conditioned")
		// the order of the two rows of a pair is an order too: even where the relations between two alignments
		// are not decidable (rounding next to a saturation), one matrix is symmetric, undefined entries included
		if m, err := dist(mkAl(rows), o, 1); err == nil {
			if perm := make([]int, len(rows)); true {
				for i := range perm {
					perm[i] = i
				}
				if msg := sameMatrix(m, transposed(m), perm, 1); msg != "" {
					c.Failf("relation:symmetry:"+o.Model, "the matrix is not symmetric (%s): rows=%q opts=%+v", msg, rows, o)
				}
				c.Count("relation:symmetry-of-ill-conditioned")
			}
		}
		return
	}
	objects := "a fresh model object per call"
	dist := dist
	if reuse {
		objects = "ONE model object re-used for all the calls"
		shared := mkModel(o) // the sides of a relation differ by the alignment and the weights only
		dist = func(al align.Alignment, o ref.NtOpts, cpus int) ([][]float64, error) {
			return dna.DistMatrix(al, o.Weights, shared, -1, -1, -1, -1, o.Gamma, o.Alpha, cpus)
		}
	}
	al := mkAl(rows)
	base, err := dist(al, o, 1)
	if err != nil {
		c.Failf("unexpected-error", "%v", err)
		return
	}
	if msg := sameMatrix(base, transposed(base), nil, 1); msg != "" {
		c.Failf("relation:symmetry:"+o.Model, "the matrix is not symmetric (%s): rows=%q opts=%+v", msg, rows, o)
		return
	}
	fail := func(msg string, rows2 []string, o2 ref.NtOpts) {
		c.Failf("relation:"+rel+":"+o.Model, "relation %s broken for model %s (%s): %s\nrows=%q opts=%+v\ntransformed rows=%q opts=%+v", rel, o.Model, objects, msg, rows, o, rows2, o2)
	}
	c.Count("relation:" + rel)
	c.Count("model:" + o.Model)
	if reuse {
		c.Count("model-object:reused")
		c.Count("model-object:reused:" + rel)
	} else {
		c.Count("model-object:fresh")
	}
	switch rel {
	case "ranges-vs-full":
		// two ranges of sequences (with the weights of the case): the cells computed are those of the full matrix
		n := len(rows)
		a, cc := r.Intn(n), r.Intn(n)
		b, d := r.Range(a, n-1), r.Range(cc, n-1)
		var m2 [][]float64
		var err error
		if reuse {
			m2, err = dna.DistMatrix(mkAl(rows), o.Weights, mkModel(o), a, b, cc, d, o.Gamma, o.Alpha, r.PickInt([]int{1, 3}))
		} else {
			m2, err = dna.DistMatrix(mkAl(rows), o.Weights, mkModel(o), a, b, cc, d, o.Gamma, o.Alpha, 1)
		}
		if err != nil {
			c.Failf("unexpected-error", "ranges %d:%d %d:%d: %v", a, b, cc, d, err)
			return
		}
		if len(m2) != n {
			return // a sub-matrix layout is C07's business
		}
		for i := a; i <= b; i++ {
			for j := cc; j <= d; j++ {
				if i == j {
					continue
				}
				x, y := m2[i][j], base[i][j]
				// an undefined pair is replaced by twice the largest defined distance among the cells COMPUTED: its value
				// legitimately differs between the two matrices
				if pr := ref.NtDistPair(rows, i, j, o, ref.Reading{RmGapsStrict: true, FreqWithGaps: true}); !pr.Defined || math.IsNaN(y) || math.IsInf(y, 0) {
					continue
				}
				if math.IsNaN(x) || !ref.Close(x, y, 1e-9, 1e-12) {
					fail(fmt.Sprintf("with --range1 %d:%d --range2 %d:%d entry (%d,%d) is %v, %v in the full matrix", a, b, cc, d, i, j, x, y), rows, o)
					return
				}
			}
		}
	case "unit-weights":
		o2 := o
		if o.Weights == nil {
			o2.Weights = make([]float64, L)
			for i := range o2.Weights {
				o2.Weights[i] = 1
			}
		} else {
			return
		}
		m2, err := dist(mkAl(rows), o2, 1)
		if err != nil {
			c.Failf("unexpected-error", "%v", err)
			return
		}
		if msg := sameMatrix(base, m2, nil, 1); msg != "" {
			fail(msg, rows, o2)
		}
	case "col-permutation":
		perm := r.Perm(L)
		sub, err := al.SelectSites(perm)
		if err != nil {
			c.Failf("unexpected-error", "SelectSites: %v", err)
			return
		}
		o2 := o
		if o.Weights != nil {
			o2.Weights = make([]float64, L)
			for k, p := range perm {
				o2.Weights[k] = o.Weights[p]
			}
		}
		m2, err := dist(sub, o2, 1)
		if err != nil {
			c.Failf("unexpected-error", "%v", err)
			return
		}
		var rows2 []string
		for _, s := range h.Snap(sub) {
			rows2 = append(rows2, s.Seq)
		}
		if msg := sameMatrix(base, m2, nil, 1); msg != "" {
			fail(msg, rows2, o2)
		}
	case "replication", "raw-scaling":
		k := r.Range(1, 4)
		rep, _ := al.Clone()
		for x := 1; x < k; x++ {
			cl, _ := al.Clone()
			if err := rep.Concat(cl); err != nil {
				c.Failf("unexpected-error", "Concat: %v", err)
				return
			}
		}
		o2 := o
		if o.Weights != nil {
			o2.Weights = nil
			for x := 0; x < k; x++ {
				o2.Weights = append(o2.Weights, o.Weights...)
			}
		}
		m2, err := dist(rep, o2, 1)
		if err != nil {
			c.Failf("unexpected-error", "%v", err)
			return
		}
		var rows2 []string
		for _, s := range h.Snap(rep) {
			rows2 = append(rows2, s.Seq)
		}
		if rel == "raw-scaling" {
			if msg := sameMatrix(base, m2, nil, float64(k)); msg != "" {
				fail(fmt.Sprintf("x%d replication: %s", k, msg), rows2, o2)
			}
			return
		}
		// replicated k times == integer weight k
		o3 := o
		o3.Weights = make([]float64, L)
		for i := range o3.Weights {
			o3.Weights[i] = float64(k)
			if o.Weights != nil {
				o3.Weights[i] *= o.Weights[i]
			}
		}
		m3, err := dist(mkAl(rows), o3, 1)
		if err != nil {
			c.Failf("unexpected-error", "%v", err)
			return
		}
		scale := 1.0
		if o.Model == "rawdist" {
			scale = float64(k)
		}
		if msg := sameMatrix(base, m2, nil, scale); msg != "" {
			fail(fmt.Sprintf("x%d replication vs original: %s", k, msg), rows2, o2)
		} else if msg := sameMatrix(m2, m3, nil, 1); msg != "" {
			fail(fmt.Sprintf("x%d replication vs weight %d: %s", k, k, msg), rows2, o3)
		}
	case "revcomp":
		rc, _ := al.Clone()
		if err := rc.ReverseComplement(); err != nil {
			c.Failf("unexpected-error", "ReverseComplement: %v", err)
			return
		}
		o2 := o
		if o.Weights != nil {
			o2.Weights = make([]float64, L)
			for i := range o.Weights {
				o2.Weights[L-1-i] = o.Weights[i]
			}
		}
		m2, err := dist(rc, o2, 1)
		if err != nil {
			c.Failf("unexpected-error", "%v", err)
			return
		}
		var rows2 []string
		for _, s := range h.Snap(rc) {
			rows2 = append(rows2, s.Seq)
		}
		if msg := sameMatrix(base, m2, nil, 1); msg != "" {
			fail(msg, rows2, o2)
		}
	case "row-permutation":
		perm := r.Perm(len(rows))
		// new row k is old row perm[k]  => new matrix[k][l] == old[perm[k]][perm[l]]
		rows2 := make([]string, len(rows))
		for k, p := range perm {
			rows2[k] = rows[p]
		}
		m2, err := dist(mkAl(rows2), o, 1)
		if err != nil {
			c.Failf("unexpected-error", "%v", err)
			return
		}
		if msg := sameMatrix(m2, base, perm, 1); msg != "" {
			fail(msg, rows2, o)
		}
	}
	c.NonTrivial(rel, strings.Join(rows, "/"), fmt.Sprintf("%+v", o), fmt.Sprint(reuse))
}

// ---- event recorder + wrapping model ---------------------------------------------

type event struct {
	n    int64
	kind string // seq, enter, exit
	i, j int
	err  bool
}

type recorder struct {
	mu       sync.Mutex
	events   []event
	seq      atomic.Int64
	inflight atomic.Int64
	returned atomic.Int64 // sequence number at which the caller saw DistMatrix return
}

func (rc *recorder) add(kind string, i, j int, err bool) int64 {
	n := rc.seq.Add(1)
	rc.mu.Lock()
	rc.events = append(rc.events, event{n, kind, i, j, err})
	rc.mu.Unlock()
	return n
}

type plan struct {
	seed     uint64
	mode     int // 0 none, 1 gosched bursts, 2 sleeps, 3 mixed
	failDist int // fail the k-th Distance call (1-based), 0 = never
	failFrom int // fail every Distance call from the k-th on (persistent failure), 0 = never
	failSeq  int // fail the k-th Sequence call
}

var errInjected = errors.New("injected model failure")

type wrapModel struct {
	inner    dna.DistModel
	rec      *recorder
	pl       plan
	mu       sync.Mutex
	idx      map[*uint8]int
	nDist    atomic.Int64
	nSeq     atomic.Int64
	emptyIdx int
}

func (w *wrapModel) perturb(n int64) {
	if w.pl.mode == 0 {
		return
	}
	x := gen.New(w.pl.seed ^ uint64(n)*0x9e3779b97f4a7c15).U64()
	switch w.pl.mode {
	case 1:
		for k := uint64(0); k < x%8; k++ {
			runtime.Gosched()
		}
	case 2:
		if x%4 == 0 {
			time.Sleep(time.Duration(50+x%400) * time.Microsecond)
		}
	case 3:
		if x%3 == 0 {
			runtime.Gosched()
		} else if x%7 == 0 {
			time.Sleep(time.Duration(50+x%1500) * time.Microsecond)
		}
	}
}

func (w *wrapModel) InitModel(al align.Alignment, weights []float64, gamma bool, alpha float64) error {
	return w.inner.InitModel(al, weights, gamma, alpha)
}

func (w *wrapModel) Sequence(i int) ([]uint8, error) {
	k := w.nSeq.Add(1)
	n := w.rec.add("seq", i, -1, w.pl.failSeq == int(k))
	w.perturb(n)
	if w.pl.failSeq == int(k) {
		return nil, errInjected
	}
	s, err := w.inner.Sequence(i)
	if err == nil && len(s) > 0 {
		w.mu.Lock()
		w.idx[&s[0]] = i
		w.mu.Unlock()
	}
	return s, err
}

func (w *wrapModel) Distance(s1, s2 []uint8, weights []float64) (float64, error) {
	w.rec.inflight.Add(1)
	defer w.rec.inflight.Add(-1)
	i, j := -1, -1
	if len(s1) > 0 && len(s2) > 0 {
		w.mu.Lock()
		i, j = w.idx[&s1[0]], w.idx[&s2[0]]
		w.mu.Unlock()
	}
	k := w.nDist.Add(1)
	n := w.rec.add("enter", i, j, false)
	w.perturb(n)
	if w.pl.failDist == int(k) || (w.pl.failFrom > 0 && int(k) >= w.pl.failFrom) {
		w.rec.add("exit", i, j, true)
		return 0, errInjected
	}
	d, err := w.inner.Distance(s1, s2, weights)
	w.perturb(n + 1)
	w.rec.add("exit", i, j, err != nil)
	return d, err
}

var reGoroutine = regexp.MustCompile(`(?m)^goroutine \d+ \[([^\]]+)\]:`)

// classifyStuck inspects a dump of all goroutines: the call is stuck iff a goroutine is inside
// dna.DistMatrix waiting (WaitGroup / channel) while no goroutine started by DistMatrix can run.
func classifyStuck(dump string) (stuck bool, why string) {
	blocks := strings.Split(dump, "\n\n")
	callerWaiting := false
	workers, blocked := 0, 0
	for _, b := range blocks {
		m := reGoroutine.FindStringSubmatch(b)
		if m == nil {
			continue
		}
		state := m[1]
		isBlocked := strings.HasPrefix(state, "chan send") || strings.HasPrefix(state, "chan receive") || strings.HasPrefix(state, "semacquire") || strings.HasPrefix(state, "sync.WaitGroup") || strings.HasPrefix(state, "select") || strings.HasPrefix(state, "sync.Mutex")
		if strings.Contains(b, "distance/dna.DistMatrix.func") {
			workers++
			if isBlocked {
				blocked++
			}
		} else if strings.Contains(b, "distance/dna.DistMatrix(") {
			if isBlocked {
				callerWaiting = true
			}
		}
	}
	if callerWaiting && workers == blocked {
		return true, fmt.Sprintf("caller blocked inside DistMatrix, %d goroutine(s) started by it, all blocked", workers)
	}
	return false, ""
}

type runResult struct {
	mat      [][]float64
	err      error
	stuck    bool
	why      string
	dump     string
	rec      *recorder
	returned bool
}

// runWrapped calls DistMatrix through the wrapper in its own goroutine and waits with the logical deadlock probe.
func runWrapped(rows []string, o ref.NtOpts, rg [4]int, cpus int, pl plan) runResult {
	rec := &recorder{}
	w := &wrapModel{inner: mkModel(o), rec: rec, pl: pl, idx: map[*uint8]int{}}
	al := mkAl(rows)
	res := runResult{rec: rec}
	done := make(chan struct{})
	go func() {
		res.mat, res.err = dna.DistMatrix(al, o.Weights, w, rg[0], rg[1], rg[2], rg[3], o.Gamma, o.Alpha, cpus)
		rec.returned.Store(rec.seq.Add(1))
		close(done)
	}()
	last := int64(-1)
	quiet := 0
	for {
		select {
		case <-done:
			res.returned = true
			return res
		default:
		}
		cur := rec.seq.Load()
		if cur != last || rec.inflight.Load() != 0 {
			last = cur
			quiet = 0
		} else {
			quiet++
		}
		if quiet < 2000 {
			runtime.Gosched()
			continue
		}
		// no wrapper activity for 2000 yields: give the scheduler real time, then look at the goroutines
		time.Sleep(100 * time.Millisecond)
		select {
		case <-done:
			res.returned = true
			return res
		default:
		}
		if rec.seq.Load() != last || rec.inflight.Load() != 0 {
			quiet = 0
			continue
		}
		buf := make([]byte, 1<<20)
		dump := string(buf[:runtime.Stack(buf, true)])
		if st, why := classifyStuck(dump); st {
			res.stuck, res.why, res.dump = true, why, dump
			return res
		}
		quiet = 1000 // runnable goroutines exist: keep waiting (the driver's watchdog is the last resort)
	}
}

// checkEvents is the offline checker over the recorded history.
func checkEvents(rec *recorder, n int, rg [4]int, expectAll bool) (msg string, order string) {
	rec.mu.Lock()
	ev := append([]event(nil), rec.events...)
	rec.mu.Unlock()
	sort.Slice(ev, func(a, b int) bool { return ev[a].n < ev[b].n })
	type pair struct{ a, b int }
	count := map[pair]int{}
	var ord []string
	retAt := rec.returned.Load()
	for _, e := range ev {
		if e.kind == "enter" {
			a, b := e.i, e.j
			if a > b {
				a, b = b, a
			}
			count[pair{a, b}]++
		}
		if e.kind == "exit" {
			ord = append(ord, fmt.Sprintf("%d-%d", e.i, e.j))
			if retAt != 0 && e.n > retAt {
				return fmt.Sprintf("Distance(%d,%d) finished after DistMatrix had returned", e.i, e.j), ""
			}
		}
	}
	for p, k := range count {
		if k > 1 {
			return fmt.Sprintf("pair (%d,%d) evaluated %d times (its matrix cells are written by several evaluations)", p.a, p.b, k), ""
		}
	}
	if expectAll {
		want := map[pair]bool{}
		if rg[0] < 0 {
			for i := 0; i < n; i++ {
				for j := i + 1; j < n; j++ {
					want[pair{i, j}] = true
				}
			}
		} else {
			hi1, hi2 := rg[1], rg[3]
			if hi1 > n-1 {
				hi1 = n - 1
			}
			if hi2 > n-1 {
				hi2 = n - 1
			}
			for i := rg[0]; i <= hi1; i++ {
				for j := rg[2]; j <= hi2; j++ {
					if i != j {
						a, b := i, j
						if a > b {
							a, b = b, a
						}
						want[pair{a, b}] = true
					}
				}
			}
		}
		for p := range want {
			if count[p] == 0 {
				return fmt.Sprintf("pair (%d,%d) was never evaluated", p.a, p.b), ""
			}
		}
		for p := range count {
			if !want[p] {
				return fmt.Sprintf("pair (%d,%d) evaluated although not requested", p.a, p.b), ""
			}
		}
	}
	return "", strings.Join(ord, ",")
}

func bitsEqual(a, b [][]float64) string {
	if len(a) != len(b) {
		return "different sizes"
	}
	for i := range a {
		for j := range a[i] {
			if math.Float64bits(a[i][j]) != math.Float64bits(b[i][j]) {
				return fmt.Sprintf("entry (%d,%d): %v (bits %x) vs %v (bits %x)", i, j, a[i][j], math.Float64bits(a[i][j]), b[i][j], math.Float64bits(b[i][j]))
			}
		}
	}
	return ""
}

// ---- B: schedules ---------------------------------------------------------------

var cpuChoices = []int{1, 2, 3, 8, 16, 32}
var procChoices = []int{1, 2, 4, 16}

func runSchedules(c *mon.Case) {
	r := c.R
	rows := genRows(r, 9, 30)
	n := len(rows)
	o := genOpts(r, len(rows[0]), false)
	rg := [4]int{-1, -1, -1, -1}
	if r.Chance(0.35) { // ranges, often overlapping
		a := r.Intn(n)
		b := r.Range(a, n-1)
		cc := r.Intn(n)
		d := r.Range(cc, n-1)
		rg = [4]int{a, b, cc, d}
	}
	c.Input(map[string]interface{}{"rows": rows, "opts": o, "ranges": rg})
	old := runtime.GOMAXPROCS(0)
	defer runtime.GOMAXPROCS(old)
	// reference: plain model, one worker
	refMat, err := dna.DistMatrix(mkAl(rows), o.Weights, mkModel(o), rg[0], rg[1], rg[2], rg[3], o.Gamma, o.Alpha, 1)
	if err != nil {
		c.Failf("unexpected-error", "%v", err)
		return
	}
	runs := 0
	for _, cpus := range cpuChoices {
		procs := procChoices[r.Intn(len(procChoices))]
		runtime.GOMAXPROCS(procs)
		pl := plan{seed: r.U64(), mode: r.Intn(4)}
		res := runWrapped(rows, o, rg, cpus, pl)
		runs++
		tag := fmt.Sprintf("cpus=%d GOMAXPROCS=%d perturbation=%d", cpus, procs, pl.mode)
		if res.stuck {
			c.Failf("stuck", "DistMatrix did not return (%s): %s\nrows=%q opts=%+v ranges=%v\n%s", tag, res.why, rows, o, rg, head(res.dump, 3000))
			return
		}
		if res.err != nil {
			c.Failf("unexpected-error", "%s: %v", tag, res.err)
			return
		}
		if msg := bitsEqual(refMat, res.mat); msg != "" {
			c.Failf("thread-count-changes-result", "%s: matrix differs from the single worker run: %s\nrows=%q opts=%+v ranges=%v", tag, msg, rows, o, rg)
			return
		}
		msg, order := checkEvents(res.rec, n, rg, true)
		if msg != "" {
			c.Failf("event-log:"+strings.SplitN(msg, " ", 2)[0], "%s: %s\nrows=%q opts=%+v ranges=%v", tag, msg, rows, o, rg)
			return
		}
		c.Count(fmt.Sprintf("runs:cpus=%d", cpus))
		c.Count(fmt.Sprintf("runs:GOMAXPROCS=%d", procs))
		c.NonTrivial("interleaving", strings.Join(rows, "/"), fmt.Sprint(rg), order)
		if rg[0] >= 0 {
			c.Count("runs:ranges")
		}
	}
	c.Add("scheduled-runs", runs)
}

func head(s string, n int) string {
	if len(s) > n {
		return s[:n] + "…"
	}
	return s
}

// ---- C: fault enumeration -------------------------------------------------------

func runFaults(c *mon.Case) {
	r := c.R
	maxN := 4
	if c.Tier == "thorough" {
		maxN = 6
	}
	n := 3 + c.Idx%(maxN-2)
	rows := make([]string, n)
	for i := range rows {
		rows[i] = r.Str(8, "ACGT")
	}
	o := ref.NtOpts{Model: models[r.Intn(len(models))]}
	P := n * (n - 1) / 2
	c.Input(map[string]interface{}{"rows": rows, "model": o.Model, "fault_positions": fmt.Sprintf("every k in 1..%d for Distance, 1..%d for Sequence", P, P+n)})
	old := runtime.GOMAXPROCS(0)
	defer runtime.GOMAXPROCS(old)
	rg := [4]int{-1, -1, -1, -1}
	positions := 0
	for _, cpus := range []int{1, 2, 3, 8} {
		for mode := 1; mode <= 3; mode++ {
			runtime.GOMAXPROCS(procChoices[r.Intn(len(procChoices))])
			for k := 1; k <= P; k++ {
				for _, which := range []string{"Distance", "Sequence"} {
					pl := plan{seed: r.U64(), mode: mode}
					if which == "Distance" {
						pl.failDist = k
					} else {
						pl.failSeq = k
					}
					res := runWrapped(rows, o, rg, cpus, pl)
					positions++
					tag := fmt.Sprintf("%s call #%d fails, cpus=%d perturbation=%d n=%d", which, k, cpus, mode, n)
					if res.stuck {
						c.Failf("stuck-after-fault", "DistMatrix did not return (%s): %s\n%s", tag, res.why, head(res.dump, 3000))
						return
					}
					if res.err == nil {
						c.Failf("fault-swallowed", "DistMatrix returned without error although a model evaluation failed (%s)", tag)
						return
					}
					if !errors.Is(res.err, errInjected) {
						c.Failf("fault-wrong-error", "DistMatrix returned %v instead of the model's error (%s)", res.err, tag)
						return
					}
					if msg, _ := checkEvents(res.rec, n, rg, false); msg != "" {
						c.Failf("event-log-after-fault", "%s: %s", tag, msg)
						return
					}
				}
			}
		}
	}
	c.Add("fault-positions", positions)
	c.Max("fault-pairs-n", n)
	c.NonTrivial("faults", strings.Join(rows, "/"), o.Model)
}

// runFaultsLarge: matrices with more pairs than any internal buffer (120..435 pairs), a failure early in the
// run, isolated or persistent: the producer of pairs must not be left blocked, the call must return the error.
func runFaultsLarge(c *mon.Case) {
	r := c.R
	n := []int{16, 20, 24, 30}[c.Idx%4]
	cpus := []int{1, 2, 4, 8}[(c.Idx/4)%4]
	kind := (c.Idx / 16) % 3
	k := []int{1, 2, 5, 10, 40}[r.Intn(5)]
	rows := make([]string, n)
	for i := range rows {
		rows[i] = r.Str(12, "ACGT")
	}
	o := ref.NtOpts{Model: models[r.Intn(len(models))]}
	pl := plan{seed: r.U64(), mode: r.Intn(4)}
	what := ""
	switch kind {
	case 0:
		pl.failDist, what = k, fmt.Sprintf("Distance call #%d fails", k)
	case 1:
		pl.failFrom, what = k, fmt.Sprintf("every Distance call from #%d on fails", k)
	default:
		pl.failSeq, what = 1+r.Intn(n), "a Sequence call fails"
	}
	c.Input(map[string]interface{}{"rows": rows, "model": o.Model, "cpus": cpus, "fault": what, "pairs": n * (n - 1) / 2})
	old := runtime.GOMAXPROCS(procChoices[r.Intn(len(procChoices))])
	defer runtime.GOMAXPROCS(old)
	res := runWrapped(rows, o, [4]int{-1, -1, -1, -1}, cpus, pl)
	tag := fmt.Sprintf("%s, cpus=%d n=%d (%d pairs) perturbation=%d", what, cpus, n, n*(n-1)/2, pl.mode)
	if res.stuck {
		c.Failf("stuck-after-fault", "DistMatrix did not return (%s): %s\n%s", tag, res.why, head(res.dump, 3000))
		return
	}
	if res.err == nil {
		c.Failf("fault-swallowed", "DistMatrix returned without error although a model evaluation failed (%s)", tag)
		return
	}
	if !errors.Is(res.err, errInjected) {
		c.Failf("fault-wrong-error", "DistMatrix returned %v instead of the model's error (%s)", res.err, tag)
		return
	}
	c.Count(fmt.Sprintf("large-fault:kind:%d", kind))
	c.Count(fmt.Sprintf("large-fault:cpus:%d", cpus))
	c.NonTrivial("large-fault", fmt.Sprint(n, cpus, kind, k), strings.Join(rows, "/"))
}

func main() {
	mon.SetNote("rule", "A (meta): random alignment (2..6 x 1..40, IUPAC, gaps) and option set, one relation per case (unit weights, column permutation, k-fold replication vs weight k, reverse complement, row permutation, raw scaling); the DistMatrix calls of a relation are made with a fresh model object per call (even case indices) or with ONE model object re-used for all of them (odd case indices: `compute distance` re-uses one object over the alignments of its input, `build distboot` over its replicates); B (schedules, -race build): the same call with 6 worker counts x random GOMAXPROCS x 4 perturbation plans through a recording/perturbing DistModel wrapper, bit-compared with the single worker result and checked offline (every requested pair evaluated exactly once, no pair twice, nothing after return); C (faults, -race build): for small matrices every k-th Distance and every k-th Sequence call fails, x 4 worker counts x 3 plans; the call must return the injected error (goroutine-dump deadlock probe otherwise); C2 (faults-large): matrices of 16..30 rows (120..435 pairs, more than any internal channel buffer) with an early isolated or persistent Distance failure or a Sequence failure x 4 worker counts. Non-trivial: A = case executed off the estimator singularities; B = one per distinct (input, worker-completion order) i.e. distinct interleavings observed; C = one per exhaustively enumerated matrix.")
	mon.SetNote("assumptions", "relations are not asked on ill-conditioned pairs (a logarithm argument within 1e-4 of 0 for some pair, decided by the independent oracle of C07);; the internal-gap counting mode is exempt from column permutation / replication (statement);; deadlock verdict = caller blocked inside DistMatrix and every goroutine it started blocked on a channel / WaitGroup in a full goroutine dump taken after the wrapper saw no activity for 2000 yields + 100 ms; anything else keeps waiting (driver watchdog = inconclusive);; race verdict = any report of the Go race detector (GORACE halt_on_error=1)")
	mon.SetNote("exhaustive_subspaces", "fault positions: every k-th Distance call and every k-th Sequence call for every generated matrix of 3..4 rows (quick) / 3..6 rows (thorough)")
	for _, rel := range []string{"unit-weights", "col-permutation", "replication", "revcomp", "row-permutation", "raw-scaling"} {
		mon.Floor("relation:"+rel, 50)
	}
	for _, rel := range []string{"unit-weights", "col-permutation", "replication", "revcomp", "row-permutation", "raw-scaling"} {
		mon.Floor("model-object:reused:"+rel, 50)
	}
	mon.Floor("model-object:reused", 10000)
	mon.Floor("model-object:fresh", 10000)
	mon.Floor("scheduled-runs", 300)
	mon.Floor("runs:ranges", 30)
	mon.Floor("fault-positions", 500)
	mon.Floor("large-fault:kind:0", 10)
	mon.Floor("large-fault:kind:1", 10)
	mon.Floor("large-fault:cpus:1", 5)
	mon.Floor("concurrent:calls", 500)
	mon.Main("C08", []mon.Sub{
		{Name: "meta", Quick: 60000, Thorough: 2000000, Run: runMeta},
		{Name: "schedules", Quick: 320, Thorough: 12000, Race: true, Run: runSchedules},
		{Name: "faults", Quick: 16, Thorough: 128, Race: true, Run: runFaults},
		{Name: "faults-large", Quick: 96, Thorough: 1920, Race: true, Run: runFaultsLarge},
		{Name: "concurrent", Quick: 64, Thorough: 1200, Race: true, Run: func(c *mon.Case) { conc.Run(c, "ntdist") }},
	})
}
