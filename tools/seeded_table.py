#!/usr/bin/env python3
"""Prints the markdown table of DESIGN.md section 7 from seeded/*/meta.json."""
import json,glob,os,re
rows=[]
for d in sorted(glob.glob('/verif/seeded/C*-m*')):
    m=json.load(open(d+'/meta.json'))
    name=os.path.basename(d)
    what=(m.get('breaks') or '').replace('\n',' ').replace('|','/')
    what=re.sub(r'\s+',' ',what)
    if len(what)>230: what=what[:230].rsplit(' ',1)[0]+' …'
    caught=[]
    for c in m.get('caught_by',[]):
        sig=c.get('first_violation','')
        mm=re.search(r'sub=(\S+).*?sig=(\S+)',sig)
        s=(' (%s: %s)'%(mm.group(1),mm.group(2))) if mm else ''
        caught.append('%s %s: %s%s'%(c['check'],c['tier'],'**caught**' if c['detected'] else 'missed',s))
    rows.append('| %s | %s | %s |'%(name,what,'<br>'.join(caught) or 'not run yet'))
print('| change | what it does | checks run against it |\n|---|---|---|')
print('\n'.join(rows))
