#!/bin/bash
# monrun.sh <ID> <repo-tree> [tier] [seed]
# Builds the monitor of property <ID> against ANOTHER tree of goalign (a scratch git worktree
# carrying a candidate fix or a deliberately broken change) instead of /repo, runs all its
# shards in parallel and prints the violation groups. Used to validate monitors (does the
# check fire on a realistic break? is it silent with a proposed fix?) without touching /repo.
# Not one of the registered checks. Scratch build dir: /tmp/monrun-<ID>-$$ (removed at exit).
set -u
export GOFLAGS=-mod=mod GOPROXY=off GOSUMDB=off GOTOOLCHAIN=local
ID=$1; TREE=$(readlink -f "$2"); TIER=${3:-quick}; SEED=${4:-1}
id=$(echo "$ID" | tr A-Z a-z)
W=/tmp/monrun-$ID-$$
trap 'rm -rf $W' EXIT
mkdir -p $W/mon $W/out
cp -r /verif/lib $W/lib
cp -r /verif/mon/$id $W/mon/$id
sed "s#=> /repo#=> $TREE#" /verif/go.mod > $W/go.mod
cp /verif/go.sum $W/go.sum
cd $W
go build -tags verif -o $W/bin ./mon/$id || { echo "BUILD FAILED"; exit 2; }
needrace=$($W/bin -list | grep -c '"race":true')
if [ "$needrace" != 0 ]; then go build -race -tags verif -o $W/bin-race ./mon/$id || { echo "RACE BUILD FAILED"; exit 2; }; fi
N=16
run_shards() { # bin raceflag
  for s in $(seq 0 $((N-1))); do
    ( cd $W/out && VERIF_SCRATCH=$W/out VERIF_REPO=$TREE GORACE="halt_on_error=1 exitcode=66" timeout 3600 $1 -tier $TIER -seed $SEED -shard $s -nshards $N -race $2 \
        -out $W/out/r$2-s$s.json -wal $W/out/r$2-s$s.wal > $W/out/r$2-s$s.stderr 2>&1; echo $? > $W/out/r$2-s$s.rc ) &
  done
  wait
}
run_shards $W/bin 0
[ "$needrace" != 0 ] && run_shards $W/bin-race 1
python3 - $W/out <<'PY'
import json,glob,sys,os,collections
d=sys.argv[1]
ev=0; groups=collections.OrderedDict(); counts=collections.Counter()
for f in sorted(glob.glob(d+'/*.json.*')):
    if f.endswith('.tmp'): continue
    s=json.load(open(f)); ev+=s['evaluations']
    for k,v in (s.get('viol_count') or {}).items(): counts[k]+=v
    for v in s.get('violations') or []:
        groups.setdefault(v['sub']+'|'+v['sig'],v)
died=[]
for f in sorted(glob.glob(d+'/*.rc')):
    rc=open(f).read().strip()
    if rc!='0':
        died.append((os.path.basename(f),rc,open(f[:-3]+'.stderr').read()[-1500:]))
print("cases executed: %d, violation groups: %d, shards that died: %d"%(ev,len(groups),len(died)))
for k,v in groups.items():
    print("VIOL %s x%d case=%s#%d\n    %s"%(k,counts[k],v['sub'],v['idx'],v['detail'][:700].replace('\n','\n    ')))
for n,rc,tail in died:
    print("DIED %s rc=%s (the driver would name the open case of the write-ahead log and restart)\n    %s"%(n,rc,tail.replace('\n','\n    ')))
sys.exit(1 if groups or died else 0)
PY
