#!/usr/bin/env python3
"""Regenerates MANIFEST.json from the table below (kept valid at all times)."""
import json, os, subprocess
HOOK_COMMITS = ["1682e78", "8c968fd"]
CHECKS = {
 # id: (technique, level text, level note, design_ref)
 "C01": ("operation histories vs executable list-of-rows model + structural invariant hook after every step (reference-model runtime monitor)",
         "Held on the histories executed: random and targeted operation sequences on alignments / sequence sets, every access path and the private index/length state compared with a list model after each step. Exploration, not proof: only generated histories (<=12 operations, <=12x12 containers) are covered.",
         "Trusted: the reference model in mon/c01 (documented meaning of each operation), the hook align/verif_invariants.go, Go runtime.", "1/C01"),
 "C03": ("hostile-input fuzzing of every parser in child processes under a logical termination oracle (counting reader: bounded post-EOF reads; per-case CPU budget), crash/exit capture through a write-ahead case log, and a well-formedness oracle on every successful result",
         "Held on the inputs executed: mutants (1-3 deep) of valid files of 12 format/option sets and of the partition format, all prefixes and all single-byte corruptions of sampled files, each parser option set; every call must terminate, not crash, and either fail explicitly or return a non-empty rectangular uniquely named result consistent with the header counts.",
         "Trusted: the monitor's own header scanner and termination thresholds (10000 post-EOF reads, 20 s CPU per parse of a < 2 kB input); io.ExitWithMessage counts as an explicit error; only generated mutants are covered.", "1/C03"),
 "C07": ("independent re-implementation of the published estimators (reference-model runtime monitor) compared entry by entry with dna.DistMatrix / DistModel.Distance on generated alignments and option sets, plus matrix sanity relations",
         "Held on the (alignment, option set) pairs executed: every matrix entry equals the oracle's estimator within 1e-9 (under one of the readings the statement leaves open), symmetric, zero diagonal, 0 without counted difference, d >= p, undefined pairs reported as NaN/Inf/2*max.",
         "Trusted: lib/ref/ntdist.go (formulas typed from the literature), tolerance 1e-9, leniency on ill-conditioned pairs (a log argument within 1e-6 of 0). One recorded known finding (F84/TN93/F81 below p on skewed compositions).", "1/C07"),
 "C08": ("metamorphic two-run monitor (permutation, replication, weights, strand, row order) + Go race detector over a schedule-perturbing, event-recording DistModel wrapper with an offline exactly-once checker + exhaustive enumeration of k-th-call model faults with a goroutine-dump deadlock probe",
         "Held on the executions observed: relations within 1e-9 on well-conditioned inputs; bit-identical matrices for 6 worker counts x GOMAXPROCS x perturbation plans with zero race reports; every fault position of small matrices returns the injected error without hanging. fault_enumeration for the fault part, exploration for the rest.",
         "Trusted: Go race detector (finds only races on the interleavings driven), the deadlock classifier over runtime.Stack, the C07 oracle for the ill-conditioned filter.", "1/C08"),
 "C09": ("three independent oracles over every call of the pairwise aligner (own scorer of the returned rows, Gotoh local dynamic program, brute-force enumeration of all local alignments for tiny inputs) on exhaustively enumerated small pairs and random / related / border pairs (reference-model runtime monitor)",
         "Held on the pairs executed: all 14400 ordered pairs over {A,C,G} (lengths 1..4) x 10 schemes, all pairs over {A,W,T}, {E,Z,P}, {E,Q,L,F} under DNAfull / BLOSUM62 gap schemes (exhaustive, each also brute-forced), and random nucleotide / protein pairs up to 60 (250) residues under random dyadic schemes: rows valid, substrings as reported, counts consistent, MaxScore == score of the returned rows == optimum whenever the optimum is positive, inputs unchanged.",
         "Trusted: mon/c09/ref.go (Gotoh DP and brute force, which must agree with each other), exact dyadic float arithmetic, the published EDNAFULL / BLOSUM62 tables typed in the monitor (compared with the tables of the build through the hook VerifSubstMatrix). Empty sequences and nucleotide-vs-protein pairs are outside the quantifier.", "1/C09"),
 "C16": ("relational runtime monitor on every phased result (substring at the reported position, frame, independent translation, exact copy => exact start, one result per input, inputs unchanged, Phase(nil) == Phase(longest ORF)) + naive every-ATG oracle for the ORF search + Go race detector over a schedule-perturbing, event-recording SeqBag/Sequence wrapper with an offline exactly-once / closed-stream checker and a goroutine-dump deadlock probe + enumeration of fault positions (too short sequence, k-th Translate, k-th Clone)",
         "Held on the executions observed: relations on every result of thousands of generated sets (1..3 references, 3..40 flanked exact / mutated / reverse-strand copies, translate/reverse/cut-end/3 codes) with 1 and 2..8 workers; longest-ORF answers equal to the every-ATG oracle on sequences with overlapping frames; identical result sets, every sequence exactly once and a closed stream for workers 1..32 x GOMAXPROCS 1..16 x perturbation plans with zero race reports; every enumerated fault position delivers an error and closes the stream.",
         "Trusted: lib/ref/gencode.go (NCBI tables), the Go race detector (only races on the interleavings driven), the deadlock classifier over runtime.Stack. With cut-end only the start of the trimmed sequence is decided. Sequences without any positive-scoring anchored alignment (pure junk) are outside the quantifier.", "1/C16"),
 "C05": ("independent reference model (NCBI tables 1/2/5 typed twice, the statement's codon rule) compared residue by residue with every translation entry point, the complete codon space enumerated; relation checks for CodonAlign and TranslateByReference (reference-model runtime monitor)",
         "Held on the executions observed: all 3 x 48^3 (code, codon) combinations over 48 symbols (exhaustive, both tiers) through Sequence.Translate / GenAllPossibleCodons alone and embedded in sequences through Sequence, SeqBag and Alignment translation in frames 0,1,2,-1; random sequences and alignments give floor((L-frame)/3) residues with an error exactly when that is 0; CodonAlign and TranslateByReference relations on generated cases. Exhaustive for the codon sub-space, exploration otherwise.",
         "Trusted: mon/c05/ref.go and lib/ref/gencode.go (two typed copies of the NCBI tables, cross-checked on the whole space). Lenient: non nucleotide symbols may give an error or X; GenAllPossibleCodons on a gapped codon; Alignment.Translate(-1) raggedness is the recorded C01 finding; for gapped alignments TranslateByReference is only constrained on the reference row (as stated).", "1/C05"),
 "C13": ("per-call differential against a list-of-rows reference (first-occurrence scan for Deduplicate; column multiset vs {emitted column j : weight j} for Compress) + metamorphic relations (idempotence, two-step dedup, clone before/after, add-after) + full access-path read-back and invariant hook + exhaustive small sub-spaces (reference-model runtime monitor)",
         "Held on the executions observed: groups partition the names with the kept row first, kept rows an untouched in-order subsequence, idempotent; compressed patterns pairwise distinct with exact multiplicities summing to L, additive statistics preserved, all access paths consistent; random containers of 6 kinds, operation chains, and exhaustively every 3x2 container over {A,N,X,n,x,-} and every column sequence up to length 5 (6) over small row sets.",
         "Trusted: mon/c13/ref.go, IterateAll as the read path. Lenient (one reading must explain a whole result): lower-case n/x as wildcard, wildcard of an unknown alphabet, order of groups / followers / emitted patterns.", "1/C13"),
}
NOT_YET = {}
def main():
    props=[json.loads(l) for l in open('/verif/properties.jsonl')]
    checks=[]; na=[]
    for p in props:
        i=p['id']
        if i in CHECKS and os.path.isdir('/verif/mon/'+i.lower()):
            t,text,note,ref=CHECKS[i]
            checks.append({"property_id":i,"quick_cmd":"./vcheck %s quick"%i,"thorough_cmd":"./vcheck %s thorough"%i,
              "evidence_file":"/verif/evidence/%s.json"%i,"replay_cmd_template":"./vcheck replay {path}","engine":"vcheck",
              "level_claimed":{"category":"exploration","text":text,"design_ref":"DESIGN.md section "+ref},"level_note":note,"technique":t})
        else:
            na.append({"property_id":i,"reason":NOT_YET.get(i,"monitor not built yet in this snapshot (planned in DESIGN.md section 1); runtime monitoring applies, nothing is claimed until the check exists")})
    m={"version":1,"setup_cmd":"cd /verif && ./setup.sh",
       "hooks":{"guard":"verif","enable":"go build -tags verif (every monitor under /verif/mon is built with it; the tag only adds align/verif_invariants.go: VerifInvariants, VerifSubstMatrix)",
                "baseline_off_cmd":"cd /repo && GOFLAGS=-mod=mod GOPROXY=off GOSUMDB=off GOTOOLCHAIN=local go test -json -vet=off -count=1 -timeout 25m ./...",
                "source_commits":HOOK_COMMITS,"add_only":True},
       "engines":[{"name":"vcheck","path":"/verif/cmd/vcheck","serves_properties":[c["property_id"] for c in checks],
                   "kind_free_text":"driver: builds one monitor per property (package main under /verif/mon/<id>) against /repo's working tree with -tags verif (and -race where schedules matter), runs it as sharded child processes with a write-ahead case log, classifies crashes/exits/race reports, merges summaries, matches known_findings.txt, writes evidence"}],
       "checks":checks,"not_applicable":na,
       "notes":"Technique family: runtime monitoring and sanitizers. Exit codes of every check: 0 held on everything explored, 1 violation (VIOLATION line + replay file), 2 inconclusive (watchdog, build failure or coverage floor missed; never expected on a healthy tree). Known findings: /verif/known_findings.txt."}
    json.dump(m,open('/verif/MANIFEST.json','w'),indent=1)
main()
