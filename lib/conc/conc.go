// Package conc builds the jobs of the `concurrent` sub-checks (run in the -race binary): every job creates its
// OWN goalign objects from its own rows, calls one family of operations and returns a canonical text of what it
// observed. mon.Concurrently runs the jobs alone first, then all at once: objects that share nothing must give
// the same results, and the race detector watches for package-level scratch state. Whether a result is RIGHT is
// decided by the other sub-checks of the same monitor; here it only has to be the result of the same calls alone.
//
// goalign's randomised operations draw from the global math/rand stream, which concurrent callers legitimately
// share: none of them is used here.
package conc

import (
	"fmt"
	"sort"
	"strings"

	"github.com/evolbioinfo/goalign/align"
	dnadist "github.com/evolbioinfo/goalign/distance/dna"
	protdist "github.com/evolbioinfo/goalign/distance/protein"

	"verif/lib/fmtio"
	"verif/lib/gen"
	"verif/lib/h"
	"verif/lib/mon"
)

const ntMix = "ACGTACGTACGTacgtRYN-"
const aaMix = "ARNDCQEGHILKMFPSTWYVarndX-"

func rows(r *gen.Rand, n, L int, alpha string) gen.Rows {
	base := r.Str(L, alpha)
	out := make(gen.Rows, n)
	for i := range out {
		b := []byte(base)
		for j := range b {
			if r.Chance(0.2) {
				b[j] = r.Pick(alpha)
			}
		}
		out[i] = gen.Seq{Name: "s" + gen.Itoa(i), Seq: string(b)}
	}
	return out
}

func snap(sb align.SeqBag) string {
	if sb == nil {
		return "<nil>"
	}
	var b strings.Builder
	for _, s := range h.Snap(sb) {
		b.WriteString(s.Name)
		b.WriteByte('=')
		b.WriteString(s.Seq)
		b.WriteByte('\n')
	}
	return b.String()
}

func errS(err error) string {
	if err == nil {
		return "ok"
	}
	return "error: " + err.Error()
}

// Job returns one job of the given family and a short description of it.
func Job(r *gen.Rand, family string) (mon.Job, string) {
	n := r.Range(2, 12)
	L := r.PickInt([]int{12, 60, 300, 1500})
	protein := r.Chance(0.4)
	alpha, code := ntMix, align.NUCLEOTIDS
	if protein && family != "translate" && family != "strand" && family != "ntdist" && family != "phase" {
		alpha, code = aaMix, align.AMINOACIDS
	}
	rs := rows(r, n, L, alpha)
	mk := func() align.Alignment { return h.MkAlign(rs, code) }
	desc := fmt.Sprintf("%s %dx%d", family, n, L)
	switch family {
	case "translate": // C05
		frame, gc := r.PickInt([]int{0, 1, 2, -1}), r.Intn(3)
		return func() string {
			a := mk()
			e1 := a.Translate(frame, gc)
			out := errS(e1) + "\n" + snap(a)
			b := h.MkSeqBag(rs, code)
			out += errS(b.Translate(frame, gc)) + "\n" + snap(b)
			q, e3 := align.NewSequence("q", []byte(rs[0].Seq), "").Translate(r0(frame), gc)
			if e3 == nil {
				out += q.Sequence()
			}
			c := mk()
			out += errS(c.TranslateByReference(0, gc, rs[0].Name)) + "\n" + snap(c)
			return out
		}, desc
	case "strand": // C06
		return func() string {
			a := mk()
			out := errS(a.ReverseComplement()) + "\n" + snap(a)
			out += errS(a.ReverseComplementSequences(rs[0].Name)) + "\n" + snap(a)
			a.ToUpper()
			out += snap(a)
			a.ToLower()
			out += snap(a)
			out += snap(a.Unalign())
			return out
		}, desc
	case "clean": // C12
		cut := r.PickF([]float64{0, 0.25, 0.5, 1})
		ends := r.Bool()
		return func() string {
			a := mk()
			f, l, k, rm := a.RemoveGapSites(cut, ends)
			out := fmt.Sprint(f, l, k, rm) + "\n" + snap(a)
			a = mk()
			f, l, k, rm = a.RemoveMajorityCharacterSites(cut, ends, true, false)
			out += fmt.Sprint(f, l, k, rm) + "\n" + snap(a)
			a = mk()
			f, l, k, rm = a.RemoveCharacterSites([]uint8{'A', 'N', 'X'}, cut, ends, true, false, false, false)
			out += fmt.Sprint(f, l, k, rm) + "\n" + snap(a)
			a = mk()
			out += fmt.Sprint(a.RemoveGapSeqs(cut, false)) + "\n" + snap(a)
			return out
		}, desc
	case "stats": // C14
		return func() string {
			a := mk()
			var b strings.Builder
			o, oc, to := a.MaxCharStats(false, false)
			fmt.Fprintln(&b, string(o), oc, to)
			o, oc, to = a.MaxCharStats(true, true)
			fmt.Fprintln(&b, string(o), oc, to)
			for j := 0; j < a.Length(); j++ {
				e, err := a.Entropy(j, j%2 == 0)
				fmt.Fprintf(&b, "%x %v;", e, err == nil)
			}
			for _, norm := range []int{align.PSSM_NORM_NONE, align.PSSM_NORM_FREQ, align.PSSM_NORM_DATA, align.PSSM_NORM_UNIF, align.PSSM_NORM_LOGO} {
				m, err := a.Pssm(norm == align.PSSM_NORM_DATA, 0.5, norm)
				keys := []int{}
				for k := range m {
					keys = append(keys, int(k))
				}
				sort.Ints(keys)
				fmt.Fprint(&b, errS(err))
				for _, k := range keys {
					fmt.Fprintf(&b, " %c:%x", k, m[uint8(k)])
				}
				b.WriteByte('\n')
			}
			fmt.Fprintln(&b, snap(a.Consensus(false, false)), a.NbVariableSites(), a.InformativeSites())
			cs := a.CharStats()
			for _, k := range a.UniqueCharacters() {
				fmt.Fprintf(&b, "%c=%d ", k, cs[k])
			}
			ref, _ := a.GetSequenceByName(rs[0].Name)
			for _, s := range a.Sequences() {
				nm, err := s.NumMutationsComparedToReferenceSequence(a.Alphabet(), ref)
				fmt.Fprint(&b, nm, err == nil, ";")
			}
			all, diffs := a.CountDifferences()
			sort.Strings(all)
			fmt.Fprintln(&b, all, diffs)
			return b.String()
		}, desc
	case "mask": // C15
		start, length := r.Intn(L), r.Range(1, L)
		repl := r.PickStr([]string{"", "AMBIG", "GAP", "MAJ"})
		return func() string {
			a := mk()
			out := errS(a.Mask(rs[0].Name, start, length, repl, true, true)) + "\n" + snap(a)
			a = mk()
			out += errS(a.MaskUnique("", repl)) + "\n" + snap(a)
			a = mk()
			out += errS(a.MaskOccurences(rs[0].Name, 2, repl)) + "\n" + snap(a)
			return out
		}, desc
	case "extract": // C04
		start, length := r.Intn(L), 0
		length = r.Range(1, L-start)
		return func() string {
			a := mk()
			var b strings.Builder
			s, err := a.SubAlign(start, length)
			fmt.Fprintln(&b, errS(err), snap(s))
			s, err = a.SelectSites([]int{0, start, L - 1})
			fmt.Fprintln(&b, errS(err), snap(s))
			x, y, err := a.RefCoordinates(rs[0].Name, 0, 3)
			fmt.Fprintln(&b, x, y, errS(err))
			is, il, err := a.InverseCoordinates(start, length)
			fmt.Fprintln(&b, is, il, errS(err))
			t, err := a.Transpose()
			fmt.Fprintln(&b, errS(err), snap(t))
			ps := align.NewPartitionSet(L)
			for p := 0; p < 3; p++ {
				ps.AddRange("p"+gen.Itoa(p), "M", p, L-1, 3)
			}
			parts, err := a.Split(ps)
			fmt.Fprintln(&b, errS(err))
			for _, p := range parts {
				b.WriteString(snap(p))
			}
			a.DiffWithFirst()
			b.WriteString(snap(a))
			a.ReplaceMatchChars()
			b.WriteString(snap(a))
			return b.String()
		}, desc
	case "formats": // C02
		f := fmtio.All[r.Intn(len(fmtio.All))]
		return func() string {
			txt := f.Write(mk())
			back, err := f.Parse(strings.NewReader(txt), align.IGNORE_NONE, align.BOTH)
			if err != nil {
				return f.Name + "\n" + txt + "\n" + errS(err)
			}
			return f.Name + "\n" + txt + "\n" + snap(back)
		}, desc + " " + f.Name
	case "parse": // C03: damaged texts
		f := fmtio.All[r.Intn(len(fmtio.All))]
		txt := []byte(f.Write(mk()))
		for k := r.Range(0, 3); k > 0 && len(txt) > 0; k-- {
			switch r.Intn(3) {
			case 0:
				txt = txt[:r.Intn(len(txt))]
			case 1:
				txt[r.Intn(len(txt))] = r.Pick(";[]=\n\t 0#/")
			default:
				i := r.Intn(len(txt))
				txt = append(txt[:i], txt[r.Range(i, len(txt)):]...)
			}
		}
		return func() string {
			back, err := f.Parse(strings.NewReader(string(txt)), align.IGNORE_NONE, align.BOTH)
			if err != nil {
				return errS(err)
			}
			return snap(back)
		}, desc + " " + f.Name
	case "ntdist": // C07 / C08 (threads inside DistMatrix are C08's subject: one thread here)
		model := r.PickStr([]string{"pdist", "rawdist", "jc", "k2p", "f81", "f84", "tn93"})
		gamma := r.Chance(0.3)
		up := make(gen.Rows, len(rs))
		for i, x := range rs {
			up[i] = gen.Seq{Name: x.Name, Seq: strings.ToUpper(x.Seq)}
		}
		return func() string {
			m, err := dnadist.Model(model, false)
			if err != nil {
				return errS(err)
			}
			d, err := dnadist.DistMatrix(h.MkAlign(up, align.NUCLEOTIDS), nil, m, -1, -1, -1, -1, gamma, 0.7, 1)
			var b strings.Builder
			b.WriteString(errS(err))
			for _, row := range d {
				for _, v := range row {
					fmt.Fprintf(&b, " %x", v)
				}
			}
			return b.String()
		}, desc + " " + model
	case "aadist": // C17
		model := r.Intn(7)
		freqs := r.Bool()
		small := rs
		if len(small) > 5 {
			small = small[:5]
		}
		return func() string {
			m, err := protdist.NewProtDistModel(model, freqs, false, 0, false)
			if err != nil {
				return errS(err)
			}
			a := h.MkAlign(small, align.AMINOACIDS)
			if err = m.InitModel(a, nil); err != nil {
				return errS(err)
			}
			_, _, d, err := m.MLDist(a, nil)
			var b strings.Builder
			b.WriteString(errS(err))
			if d != nil {
				for i := 0; i < len(small); i++ {
					for j := 0; j < len(small); j++ {
						fmt.Fprintf(&b, " %x", d.At(i, j))
					}
				}
			}
			return b.String()
		}, fmt.Sprintf("%s model %d", desc, model)
	case "container": // C01
		return func() string {
			a := mk()
			var b strings.Builder
			a.Rename(map[string]string{rs[0].Name: "zz", rs[1].Name: "aa"})
			a.Sort()
			b.WriteString(snap(a))
			nm := map[string]string{}
			a.AppendSeqIdentifier("x y", false)
			a.CleanNames(nm)
			cur := 1
			fmt.Fprintln(&b, errS(a.TrimNamesAuto(nm, &cur)))
			b.WriteString(snap(a))
			g, err := a.Deduplicate(false)
			fmt.Fprintln(&b, g, errS(err), snap(a))
			c, err := a.Clone()
			fmt.Fprintln(&b, errS(err), snap(c), errS(a.Concat(c)), snap(a))
			fmt.Fprintln(&b, errS(a.FilterLength(0, 2*L)), a.NbSequences(), a.Length(), h.Invariants(a))
			return b.String()
		}, desc
	case "phase": // C16 (one worker inside: the order of the stream is then defined)
		orf := "ATG" + strings.ToUpper(r.Str(3*r.Range(8, 20), "ACGT")) + "TAA"
		orf = strings.NewReplacer("TAA", "TCA", "TAG", "TCG", "TGA", "TCA").Replace(orf[:len(orf)-3]) + "TAA"
		seqs := make(gen.Rows, r.Range(2, 8))
		for i := range seqs {
			b := []byte(orf)
			for j := 3; j < len(b)-3; j++ {
				if r.Chance(0.05) {
					b[j] = r.Pick("ACGT")
				}
			}
			seqs[i] = gen.Seq{Name: "q" + gen.Itoa(i), Seq: r.Str(r.Intn(12), "CT") + string(b) + r.Str(r.Intn(12), "ACGT")}
		}
		translate := r.Bool()
		return func() string {
			p := align.NewPhaser()
			p.SetCpus(1)
			p.SetTranslate(translate, 0)
			refs := h.MkSeqBag(gen.Rows{{Name: "orf", Seq: orf}}, align.NUCLEOTIDS)
			ch, err := p.Phase(refs, h.MkSeqBag(seqs, align.NUCLEOTIDS))
			if err != nil {
				return errS(err)
			}
			var b strings.Builder
			for ph := range ch {
				if ph.Err != nil {
					fmt.Fprintln(&b, errS(ph.Err))
					continue
				}
				fmt.Fprintln(&b, ph.Removed, ph.Position, seqS(ph.NtSeq), seqS(ph.CodonSeq), seqS(ph.AaSeq))
			}
			return b.String()
		}, desc
	}
	panic("harness: unknown job family " + family)
}

func seqS(s align.Sequence) string {
	if s == nil {
		return "<nil>"
	}
	return s.Name() + "=" + s.Sequence()
}

func r0(frame int) int {
	if frame < 0 {
		return 0
	}
	return frame
}

// Run is the body of a `concurrent` sub-check: 2..8 jobs of the given families.
func Run(c *mon.Case, families ...string) {
	r := c.R
	nw := r.PickInt([]int{2, 3, 4, 8})
	var jobs []mon.Job
	var descs []string
	for i := 0; i < nw; i++ {
		j, d := Job(r, families[r.Intn(len(families))])
		jobs = append(jobs, j)
		descs = append(descs, d)
	}
	c.Input(map[string]interface{}{"jobs": descs})
	diff, calls := mon.Concurrently(jobs, 4, r.PickInt([]int{1, 2, 4, 16}))
	if diff != "" {
		c.Failf("concurrent:objects-not-independent", "%v\n%s", descs, diff)
		return
	}
	c.Add("concurrent:calls", calls)
	for _, d := range descs {
		c.Count("concurrent:family:" + strings.SplitN(d, " ", 2)[0])
	}
	c.NonTrivial(fmt.Sprint(descs), fmt.Sprint(c.Idx))
}
