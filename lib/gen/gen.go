// Package gen holds the deterministic PRNG and the input generators shared by
// all monitors. Case i of sub-check s of property p under VERIF_SEED=seed always
// draws from New(Mix(seed, p, s, i)), so a single case replays on its own.
package gen

import (
	"hash/fnv"
)

// Rand is a splitmix64 generator. It never touches math/rand's global stream
// (monitors of randomised goalign operations own that one).
type Rand struct{ s uint64 }

func New(seed uint64) *Rand { return &Rand{s: seed} }

func (r *Rand) U64() uint64 {
	r.s += 0x9e3779b97f4a7c15
	z := r.s
	z = (z ^ (z >> 30)) * 0xbf58476d1ce4e5b9
	z = (z ^ (z >> 27)) * 0x94d049bb133111eb
	return z ^ (z >> 31)
}

// Intn returns a value in [0,n). n<=0 returns 0.
func (r *Rand) Intn(n int) int {
	if n <= 0 {
		return 0
	}
	return int(r.U64() % uint64(n))
}

// Range returns a value in [lo,hi] inclusive.
func (r *Rand) Range(lo, hi int) int {
	if hi <= lo {
		return lo
	}
	return lo + r.Intn(hi-lo+1)
}

func (r *Rand) Float() float64 { return float64(r.U64()>>11) / float64(1<<53) }

func (r *Rand) Bool() bool { return r.U64()&1 == 1 }

// Chance returns true with probability p.
func (r *Rand) Chance(p float64) bool { return r.Float() < p }

func (r *Rand) Pick(s string) byte { return s[r.Intn(len(s))] }

func (r *Rand) PickInt(s []int) int { return s[r.Intn(len(s))] }

func (r *Rand) PickStr(s []string) string { return s[r.Intn(len(s))] }

func (r *Rand) PickF(s []float64) float64 { return s[r.Intn(len(s))] }

// Perm returns a random permutation of 0..n-1.
func (r *Rand) Perm(n int) []int {
	p := make([]int, n)
	for i := range p {
		p[i] = i
	}
	for i := n - 1; i > 0; i-- {
		j := r.Intn(i + 1)
		p[i], p[j] = p[j], p[i]
	}
	return p
}

// Str returns a random string of length n over alphabet.
func (r *Rand) Str(n int, alphabet string) string {
	b := make([]byte, n)
	for i := range b {
		b[i] = alphabet[r.Intn(len(alphabet))]
	}
	return string(b)
}

func (r *Rand) Bytes(n int, alphabet string) []byte { return []byte(r.Str(n, alphabet)) }

// Mix derives the seed of one case.
func Mix(seed uint64, prop, sub string, idx int) uint64 {
	h := fnv.New64a()
	h.Write([]byte(prop))
	h.Write([]byte{0})
	h.Write([]byte(sub))
	x := h.Sum64() ^ (seed * 0x9e3779b97f4a7c15) ^ (uint64(idx)+1)*0xd1342543de82ef95
	r := New(x)
	r.U64()
	return r.U64()
}

// Hash64 hashes any number of strings (canonical case hash for "distinct").
func Hash64(parts ...string) uint64 {
	h := fnv.New64a()
	for _, p := range parts {
		h.Write([]byte(p))
		h.Write([]byte{0xff})
	}
	return h.Sum64()
}

// Alphabets used by the generators.
const (
	NtCore   = "ACGT"
	NtIUPAC  = "ACGTRYSWKMBDHVN"
	NtLower  = "acgtryswkmbdhvn"
	AaCore   = "ARNDCQEGHILKMFPSTWYV"
	AaLower  = "arndcqeghilkmfpstwyv"
	AaExtra  = "BZX"
	NtAll    = NtIUPAC + NtLower
	AaAll    = AaCore + AaLower + AaExtra + "bzx"
	Specials = "-*?"
)

// Seq is one named row of a plain list-of-rows alignment (the shape every
// reference model works on).
type Seq struct {
	Name string `json:"name"`
	Seq  string `json:"seq"`
}

// Rows is the plain representation of an alignment / sequence set.
type Rows []Seq

func (r Rows) Clone() Rows { c := make(Rows, len(r)); copy(c, r); return c }

func (r Rows) Names() []string {
	n := make([]string, len(r))
	for i, s := range r {
		n[i] = s.Name
	}
	return n
}

func (r Rows) Key() string {
	b := make([]byte, 0, 64)
	for _, s := range r {
		b = append(b, s.Name...)
		b = append(b, 0)
		b = append(b, s.Seq...)
		b = append(b, 1)
	}
	return string(b)
}

// Column j of the rows.
func (r Rows) Col(j int) string {
	b := make([]byte, len(r))
	for i, s := range r {
		b[i] = s.Seq[j]
	}
	return string(b)
}

// Lengths that sit on the boundaries the code special-cases.
var BoundaryLens = []int{1, 2, 3, 4, 5, 6, 7, 8, 9, 10, 11, 12, 15, 20, 29, 30, 31, 49, 50, 51, 59, 60, 61, 79, 80, 81, 99, 100, 101, 119, 120, 121}

// HostileNames is the name pool described in DESIGN.md section 1.
var HostileNames = []string{"a", "b", "Z", "s0", "s1", "s2", "seq_1", "seq_2", "x_0001", "x_0002", "x", "0", "1", "42", "0001",
	"tenchars10", "elevenchars", "A|B", "A:B", "a.b", "name with space", " lead", "trail ", "[br]", "(p)", "a,b", "a;b", "pre", "prefix", "prefix2",
	"S1", "S01", "é", "Seq0000", "Seq0001", "GAP", "N", "-", "s0_0001", "s0_0002",
	"cov100%", "%d", "a%sb", // names are data, never a format string
	"Homo_sapiens_isolate_1", "Homo_sapiens_isolate_2"} // equal over their first 10 characters (strict Phylip cuts there)

// UniqueNames returns n pairwise distinct names, some from the hostile pool.
func UniqueNames(r *Rand, n int, hostile bool) []string {
	out := make([]string, 0, n)
	seen := map[string]bool{}
	for len(out) < n {
		var s string
		if hostile && r.Chance(0.5) {
			s = r.PickStr(HostileNames)
		} else {
			s = "s" + itoa(len(out))
			if r.Chance(0.3) {
				s = r.Str(r.Range(1, 12), "abcXYZ019_")
			}
		}
		if seen[s] {
			continue
		}
		seen[s] = true
		out = append(out, s)
	}
	return out
}

func itoa(i int) string {
	if i == 0 {
		return "0"
	}
	neg := i < 0
	if neg {
		i = -i
	}
	var b [20]byte
	p := len(b)
	for i > 0 {
		p--
		b[p] = byte('0' + i%10)
		i /= 10
	}
	if neg {
		p--
		b[p] = '-'
	}
	return string(b[p:])
}

// Itoa is exported for monitors that avoid importing strconv for one call.
func Itoa(i int) string { return itoa(i) }

// RandRows builds n rows of length L over alphabet with unique names.
func RandRows(r *Rand, n, L int, alphabet string, hostileNames bool) Rows {
	names := UniqueNames(r, n, hostileNames)
	rows := make(Rows, n)
	for i := range rows {
		rows[i] = Seq{names[i], r.Str(L, alphabet)}
	}
	return rows
}

// NtAlphabet picks one of the residue mixes used for nucleotide inputs.
func NtAlphabet(r *Rand) string {
	switch r.Intn(6) {
	case 0:
		return NtCore
	case 1:
		return NtCore + "N-"
	case 2:
		return NtIUPAC + "-"
	case 3:
		return NtCore + NtCore + "acgt-"
	case 4:
		return NtAll + "-"
	default:
		return NtCore + NtCore + NtCore + "-N"
	}
}

// AaAlphabet picks one of the residue mixes used for protein inputs. It always
// contains at least one letter that is not a nucleotide code so that the
// detected alphabet is protein with overwhelming probability for L>=5.
func AaAlphabet(r *Rand) string {
	switch r.Intn(4) {
	case 0:
		return AaCore
	case 1:
		return AaCore + "X-"
	case 2:
		return AaCore + AaLower + "Xx-"
	default:
		return AaCore + AaCore + "BZX*-"
	}
}
