// Package fmtio is the table of goalign's alignment formats (writer + parser
// constructors) shared by the C02 (round trip) and C03 (hostile input) monitors.
package fmtio

import (
	"io"

	"github.com/evolbioinfo/goalign/align"
	"github.com/evolbioinfo/goalign/io/clustal"
	"github.com/evolbioinfo/goalign/io/fasta"
	"github.com/evolbioinfo/goalign/io/nexus"
	"github.com/evolbioinfo/goalign/io/phylip"
	"github.com/evolbioinfo/goalign/io/stockholm"
)

// Format is one (format, writer option set).
type Format struct {
	Name   string
	Code   int  // align.FORMAT_*
	Strict bool // phylip strict names
	Write  func(al align.Alignment) string
	// Parse parses one alignment. policy: align.IGNORE_*, alphabet: align.BOTH (auto) / NUCLEOTIDS / AMINOACIDS.
	Parse func(r io.Reader, policy, alphabet int) (align.Alignment, error)
}

func phy(name string, strict, oneline, noblock bool) Format {
	return Format{Name: name, Code: align.FORMAT_PHYLIP, Strict: strict,
		Write: func(al align.Alignment) string { return phylip.WriteAlignment(al, strict, oneline, noblock) },
		Parse: func(r io.Reader, policy, alphabet int) (align.Alignment, error) {
			return phylip.NewParser(r, strict).IgnoreIdentical(policy).Alphabet(alphabet).Parse()
		}}
}

// All formats and writer option sets.
var All = []Format{
	{Name: "fasta", Code: align.FORMAT_FASTA,
		Write: func(al align.Alignment) string { return fasta.WriteAlignment(al) },
		Parse: func(r io.Reader, policy, alphabet int) (align.Alignment, error) {
			return fasta.NewParser(r).IgnoreIdentical(policy).Alphabet(alphabet).Parse()
		}},
	phy("phylip", false, false, false),
	phy("phylip-oneline", false, true, false),
	phy("phylip-noblock", false, false, true),
	phy("phylip-oneline-noblock", false, true, true),
	phy("phylip-strict", true, false, false),
	phy("phylip-strict-oneline", true, true, false),
	phy("phylip-strict-noblock", true, false, true),
	phy("phylip-strict-oneline-noblock", true, true, true),
	{Name: "nexus", Code: align.FORMAT_NEXUS,
		Write: func(al align.Alignment) string { return nexus.WriteAlignment(al) },
		Parse: func(r io.Reader, policy, alphabet int) (align.Alignment, error) {
			return nexus.NewParser(r).IgnoreIdentical(policy).Alphabet(alphabet).Parse()
		}},
	{Name: "clustal", Code: align.FORMAT_CLUSTAL,
		Write: func(al align.Alignment) string { return clustal.WriteAlignment(al) },
		Parse: func(r io.Reader, policy, alphabet int) (align.Alignment, error) {
			return clustal.NewParser(r).IgnoreIdentical(policy).Alphabet(alphabet).Parse()
		}},
	{Name: "stockholm", Code: align.FORMAT_STOCKHOLM,
		Write: func(al align.Alignment) string { return stockholm.WriteAlignment(al) },
		Parse: func(r io.Reader, policy, alphabet int) (align.Alignment, error) {
			return stockholm.NewParser(r).IgnoreIdentical(policy).Alphabet(alphabet).Parse()
		}},
}

// ByName returns a format of the table.
func ByName(n string) Format {
	for _, f := range All {
		if f.Name == n {
			return f
		}
	}
	panic("harness: unknown format " + n)
}
