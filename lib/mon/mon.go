// Package mon is the child-process side of the monitoring framework: it runs
// PRNG-determined cases of one property's sub-checks, keeps a write-ahead case
// log so that the driver can name the case that killed the process, converts
// panics into violations and writes a summary (counts, distinct non-trivial
// case hashes, coverage counters, samples, violations) for the driver.
package mon

import (
	"encoding/json"
	"flag"
	"fmt"
	"io"
	"log"
	"os"
	"runtime/debug"
	"sort"
	"strconv"
	"strings"
	"sync/atomic"
	"syscall"
	"time"

	"verif/lib/gen"
)

// Violation is one oracle disagreement.
type Violation struct {
	Sub    string          `json:"sub"`
	Idx    int             `json:"idx"`
	Sig    string          `json:"sig"` // stable signature used by the known-findings matcher
	Detail string          `json:"detail"`
	Input  json.RawMessage `json:"input,omitempty"`
}

// Sample is one executed case written out for the evidence file.
type Sample struct {
	Sub   string          `json:"sub"`
	Idx   int             `json:"idx"`
	Input json.RawMessage `json:"input"`
	Note  string          `json:"observed,omitempty"`
}

// Summary is what a child hands to the driver.
type Summary struct {
	Prop        string            `json:"prop"`
	Tier        string            `json:"tier"`
	Seed        uint64            `json:"seed"`
	Shard       int               `json:"shard"`
	Evaluations int               `json:"evaluations"`
	PerSub      map[string]int    `json:"per_sub"`
	NonTrivial  []uint64          `json:"nontrivial"`
	Counters    map[string]int    `json:"counters"`
	Samples     []Sample          `json:"samples"`
	Violations  []Violation       `json:"violations"`
	ViolCount   map[string]int    `json:"viol_count"` // sub|sig -> occurrences
	Floors      map[string]int    `json:"floors"`
	Notes       map[string]string `json:"notes,omitempty"`
	Pos         string            `json:"pos"` // last completed case "sub:idx" when this segment was written
	Complete    bool              `json:"complete"`
}

// Sub is one sub-check of a property.
type Sub struct {
	Name     string
	Quick    int  // cases at the quick tier
	Thorough int  // cases at the thorough tier
	Race     bool // must run in the -race build
	Serial   bool // all cases in shard 0 (stateful / owns global rand / spawns processes)
	Run      func(c *Case)
}

// SubInfo is printed by -list for the driver.
type SubInfo struct {
	Name     string `json:"name"`
	Quick    int    `json:"quick"`
	Thorough int    `json:"thorough"`
	Race     bool   `json:"race"`
	Serial   bool   `json:"serial"`
}

// Case is handed to Sub.Run.
type Case struct {
	Prop, Sub, Tier string
	Idx             int
	Seed            uint64
	R               *gen.Rand
	Verbose         bool
	run             *runner
	input           interface{}
	note            string
	nfail           int
}

type runner struct {
	sum      Summary
	nt       map[uint64]struct{}
	ntAll    int
	samples  map[string]int
	violKept map[string]int
	wal      *os.File
	out      string
	seg      int
	sinceCk  int
}

const ckEvery = 1000

// flush writes the current delta as segment <out>.<seg> and resets the delta.
func (r *runner) flush(complete bool) {
	r.sum.NonTrivial = make([]uint64, 0, len(r.nt))
	for h := range r.nt {
		r.sum.NonTrivial = append(r.sum.NonTrivial, h)
	}
	sort.Slice(r.sum.NonTrivial, func(i, j int) bool { return r.sum.NonTrivial[i] < r.sum.NonTrivial[j] })
	r.sum.Floors = floors
	r.sum.Notes = notes
	r.sum.Complete = complete
	b, _ := json.Marshal(r.sum)
	if r.out == "" {
		if complete {
			os.Stdout.Write(b)
		}
	} else {
		name := r.out + "." + strconv.Itoa(r.seg)
		tmp := name + ".tmp"
		if err := os.WriteFile(tmp, b, 0644); err != nil {
			fmt.Fprintln(os.Stderr, "out:", err)
			os.Exit(3)
		}
		os.Rename(tmp, name)
	}
	r.seg++
	r.sinceCk = 0
	r.ntAll += len(r.nt)
	r.nt = map[uint64]struct{}{}
	pos := r.sum.Pos
	r.sum = Summary{Prop: r.sum.Prop, Tier: r.sum.Tier, Seed: r.sum.Seed, Shard: r.sum.Shard, PerSub: map[string]int{}, Counters: map[string]int{}, ViolCount: map[string]int{}, Pos: pos}
}

const maxHashes = 3000000

// Input records a serialisable description of the case (kept for samples,
// violations and replay files).
func (c *Case) Input(v interface{}) { c.input = v }

// Note records what was observed (shown with samples).
func (c *Case) Note(format string, a ...interface{}) { c.note = fmt.Sprintf(format, a...) }

// Count increments a coverage counter.
func (c *Case) Count(key string) { c.run.sum.Counters[key]++ }

func (c *Case) Add(key string, n int) { c.run.sum.Counters[key] += n }

// Max keeps the maximum seen for a counter.
func (c *Case) Max(key string, n int) {
	key = "max:" + key
	if n > c.run.sum.Counters[key] {
		c.run.sum.Counters[key] = n
	}
}

// NonTrivial registers the canonical hash of a case that is non-trivial by the
// property's rule.
func (c *Case) NonTrivial(parts ...string) {
	if len(c.run.nt)+c.run.ntAll < maxHashes {
		c.run.nt[gen.Hash64(append([]string{c.Sub}, parts...)...)] = struct{}{}
	}
}

// Checkpoint flushes everything recorded before this case, so that nothing is lost
// if the code under test ends the process (os.Exit, fatal error) during this case.
func (c *Case) Checkpoint() {
	if c.run.out != "" && c.run.sinceCk > 0 {
		c.run.flush(false)
	}
}

// Failed tells whether this case already recorded a violation.
func (c *Case) Failed() bool { return c.nfail > 0 }

// Failf records a violation. sig must be stable across seeds (it names the
// operation and the kind of disagreement, never data).
func (c *Case) Failf(sig string, format string, a ...interface{}) {
	c.nfail++
	key := c.Sub + "|" + sig
	c.run.sum.ViolCount[key]++
	if c.run.violKept[key] >= 3 || len(c.run.sum.Violations) >= 200 {
		return
	}
	c.run.violKept[key]++
	d := fmt.Sprintf(format, a...)
	if len(d) > 6000 {
		d = d[:6000] + "…"
	}
	c.run.sum.Violations = append(c.run.sum.Violations, Violation{Sub: c.Sub, Idx: c.Idx, Sig: sig, Detail: d, Input: marshal(c.input)})
	if c.Verbose {
		fmt.Printf("FAIL %s %s#%d sig=%s\n%s\n", c.Prop, c.Sub, c.Idx, sig, d)
	}
}

func marshal(v interface{}) json.RawMessage {
	if v == nil {
		return json.RawMessage("null")
	}
	b, err := json.Marshal(v)
	if err != nil {
		b, _ = json.Marshal(fmt.Sprintf("%+v", v))
	}
	if len(b) > 20000 {
		b, _ = json.Marshal(string(b[:20000]) + "…(truncated)")
	}
	return b
}

// Floors lets a monitor declare coverage floors (counter -> minimum) for the
// whole run at the given tier; the driver checks them on the merged counters.
var floors = map[string]int{}

func Floor(key string, min int) { floors[key] = min }

var notes = map[string]string{}

// SetNote attaches free text to the evidence (rule text, assumptions).
func SetNote(key, text string) { notes[key] = text }

// TopFrame extracts the first goalign frame of a stack (stable panic signature).
func TopFrame(stack string) string {
	for _, l := range strings.Split(stack, "\n") {
		if !strings.Contains(l, "evolbioinfo/goalign/") || strings.HasPrefix(l, "\t") {
			continue
		}
		l = strings.TrimSpace(l)
		cut := len(l)
		for i := 0; i < len(l); i++ {
			if l[i] == '(' && (i+1 >= len(l) || l[i+1] != '*') {
				cut = i
				break
			}
		}
		l = l[:cut]
		if j := strings.LastIndex(l, "/"); j >= 0 {
			l = l[j+1:]
		}
		return l
	}
	return "unknown"
}

// Protect runs f and converts a panic into (panicked, message, topframe).
func Protect(f func()) (panicked bool, msg string, frame string) {
	defer func() {
		if r := recover(); r != nil {
			st := string(debug.Stack())
			panicked = true
			msg = fmt.Sprintf("%v", r)
			frame = TopFrame(st)
			if len(st) > 3000 {
				st = st[:3000]
			}
			msg += "\n" + st
		}
	}()
	f()
	return
}

func (r *runner) runCase(prop string, s Sub, idx int, tier string, seed uint64, verbose bool) {
	c := &Case{Prop: prop, Sub: s.Name, Tier: tier, Idx: idx, Seed: seed, R: gen.New(gen.Mix(seed, prop, s.Name, idx)), Verbose: verbose, run: r}
	if r.wal != nil {
		r.wal.WriteString("B " + s.Name + " " + strconv.Itoa(idx) + "\n")
	}
	if CPUBudget != 0 {
		caseLabel.Store(s.Name + "#" + strconv.Itoa(idx))
		caseStartCPU.Store(int64(cpuNow()) + 1)
	}
	panicked, msg, frame := Protect(func() { s.Run(c) })
	caseStartCPU.Store(0)
	if panicked {
		first := msg
		if i := strings.Index(first, "\n"); i > 0 {
			first = first[:i]
		}
		// keep only the kind of the runtime error, not its numbers
		kind := first
		for _, k := range []string{"index out of range", "slice bounds out of range", "nil pointer dereference", "negative Repeat count", "makeslice", "integer divide by zero", "negative shift"} {
			if strings.Contains(first, k) {
				kind = k
			}
		}
		c.Failf("panic:"+frame+":"+kind, "panic: %s", msg)
	}
	if r.wal != nil {
		r.wal.WriteString("E " + s.Name + " " + strconv.Itoa(idx) + "\n")
	}
	r.sum.Evaluations++
	r.sum.PerSub[s.Name]++
	r.sum.Pos = s.Name + ":" + strconv.Itoa(idx)
	if c.input != nil && r.samples[s.Name] < 2 {
		r.samples[s.Name]++
		r.sum.Samples = append(r.sum.Samples, Sample{Sub: s.Name, Idx: idx, Input: marshal(c.input), Note: c.note})
	}
}

// CPUBudget, when non zero, bounds the CPU time one case may consume (a logical,
// load-independent non-termination oracle: process CPU time does not advance while
// the process is not scheduled). Exceeding it ends the child with exit code 77.
var CPUBudget time.Duration

var caseStartCPU atomic.Int64
var caseLabel atomic.Value

func cpuNow() time.Duration {
	var ru syscall.Rusage
	syscall.Getrusage(syscall.RUSAGE_SELF, &ru)
	return time.Duration(ru.Utime.Nano() + ru.Stime.Nano())
}

func startCPUWatch() {
	if CPUBudget == 0 {
		return
	}
	go func() {
		for {
			time.Sleep(500 * time.Millisecond)
			st := caseStartCPU.Load()
			if st == 0 {
				continue
			}
			if used := cpuNow() - time.Duration(st); used > CPUBudget {
				fmt.Fprintf(os.Stderr, "CPU-BUDGET exceeded: case %v used %v of CPU (budget %v)\n", caseLabel.Load(), used, CPUBudget)
				os.Exit(77)
			}
		}
	}()
}

// Main is the entry point of every monitor binary.
func Main(prop string, subs []Sub) {
	tier := flag.String("tier", "quick", "quick|thorough")
	seed := flag.Uint64("seed", 1, "VERIF_SEED")
	shard := flag.Int("shard", 0, "")
	nshards := flag.Int("nshards", 1, "")
	out := flag.String("out", "", "summary file")
	wal := flag.String("wal", "", "write-ahead case log")
	resume := flag.String("resume", "", "sub:idx - skip everything up to and including this case")
	skip := flag.String("skip", "", "comma separated sub:idx cases not to run (they killed an earlier child)")
	only := flag.String("only", "", "sub:idx - run one case verbosely")
	race := flag.Int("race", 0, "1: run the subs that need the race build, 0: the others")
	list := flag.Bool("list", false, "")
	flag.Parse()
	log.SetOutput(io.Discard)
	startCPUWatch()

	if *list {
		infos := []SubInfo{}
		for _, s := range subs {
			infos = append(infos, SubInfo{s.Name, s.Quick, s.Thorough, s.Race, s.Serial})
		}
		json.NewEncoder(os.Stdout).Encode(infos)
		return
	}

	r := &runner{nt: map[uint64]struct{}{}, samples: map[string]int{}, violKept: map[string]int{}, out: *out}
	r.sum = Summary{Prop: prop, Tier: *tier, Seed: *seed, Shard: *shard, PerSub: map[string]int{}, Counters: map[string]int{}, ViolCount: map[string]int{}}

	if *only != "" {
		i := strings.LastIndex(*only, ":")
		name := (*only)[:i]
		idx, _ := strconv.Atoi((*only)[i+1:])
		for _, s := range subs {
			if s.Name == name {
				r.runCase(prop, s, idx, *tier, *seed, true)
			}
		}
		b, _ := json.MarshalIndent(r.sum.Violations, "", " ")
		fmt.Printf("violations: %s\n", b)
		if len(r.sum.Violations) > 0 {
			os.Exit(1)
		}
		return
	}

	if *wal != "" {
		f, err := os.OpenFile(*wal, os.O_CREATE|os.O_WRONLY|os.O_APPEND, 0644)
		if err != nil {
			fmt.Fprintln(os.Stderr, "wal:", err)
			os.Exit(3)
		}
		r.wal = f
	}
	resSub, resIdx := "", -1
	if *resume != "" {
		i := strings.LastIndex(*resume, ":")
		resSub = (*resume)[:i]
		resIdx, _ = strconv.Atoi((*resume)[i+1:])
	}
	passed := resSub == ""
	skipSet := map[string]bool{}
	for _, k := range strings.Split(*skip, ",") {
		if k != "" {
			skipSet[k] = true
		}
	}
	r.sum.Pos = *resume
	for _, s := range subs {
		if (s.Race && *race == 0) || (!s.Race && *race == 1) {
			continue
		}
		n := s.Quick
		if *tier == "thorough" {
			n = s.Thorough
		}
		if !passed && s.Name != resSub {
			continue
		}
		for idx := 0; idx < n; idx++ {
			if s.Serial {
				if *shard != 0 {
					break
				}
			} else if idx%*nshards != *shard {
				continue
			}
			if !passed && s.Name == resSub && idx <= resIdx {
				continue
			}
			if skipSet[s.Name+":"+strconv.Itoa(idx)] {
				continue
			}
			r.runCase(prop, s, idx, *tier, *seed, false)
			r.sinceCk++
			if r.sinceCk >= ckEvery {
				r.flush(false)
			}
		}
		if s.Name == resSub {
			passed = true
		}
	}
	r.flush(true)
}
