package mon

import (
	"fmt"
	"runtime"
	"sync"
)

// Job is one unit of a concurrency probe: it builds its OWN objects (nothing shared with the other jobs), calls
// the code under test and returns a canonical text of everything it observed.
type Job func() string

// Concurrently decides "independent objects used by different goroutines stay independent": every job is first
// run alone, in order, in the calling goroutine (the expectation), then all the jobs are started at the same time,
// each in its own goroutine, `rounds` times each (a start barrier per round keeps them overlapping), at the given
// GOMAXPROCS. It returns "" when every result equals the one obtained alone, otherwise a description of the first
// difference. A panic inside a job is reported the same way. Meant for sub-checks run in the -race binary
// (Sub.Race): shared scratch state then shows as a race report (which ends the child and is classified by the
// driver) even when the values happen to survive.
func Concurrently(jobs []Job, rounds, procs int) (diff string, calls int) {
	if procs > 0 {
		old := runtime.GOMAXPROCS(procs)
		defer runtime.GOMAXPROCS(old)
	}
	want := make([]string, len(jobs))
	for i, j := range jobs {
		want[i] = j()
	}
	var mu sync.Mutex
	for k := 0; k < rounds && diff == ""; k++ {
		var wg sync.WaitGroup
		start := make(chan struct{})
		for i := range jobs {
			wg.Add(1)
			go func(i int) {
				defer wg.Done()
				<-start
				var got string
				pan, msg, _ := Protect(func() { got = jobs[i]() })
				if pan {
					got = "panic: " + msg
				}
				if got != want[i] {
					mu.Lock()
					if diff == "" {
						diff = fmt.Sprintf("job %d of %d, round %d: result while the other goroutines work on their own objects:\n%s\nresult of the same job alone:\n%s", i, len(jobs), k, clipText(got, 1500), clipText(want[i], 1500))
					}
					mu.Unlock()
				}
			}(i)
		}
		close(start)
		wg.Wait()
		calls += len(jobs)
	}
	return
}

func clipText(s string, n int) string {
	if len(s) > n {
		return s[:n] + "…"
	}
	return s
}
