package ref

import "math"

// NtOpts is one option set of the nucleotide distance computation.
type NtOpts struct {
	Model   string    `json:"model"` // rawdist pdist jc k2p f81 f84 tn93
	Gamma   bool      `json:"gamma"`
	Alpha   float64   `json:"alpha"`
	RmGaps  bool      `json:"rmgaps"`
	GapMut  int       `json:"gapmut"`  // 0 none, 1 internal gaps, 2 all gaps (rawdist/pdist)
	RmAmbig bool      `json:"rmambig"` // pdist only
	Weights []float64 `json:"weights,omitempty"`
}

// Reading selects one of the interpretations the statement leaves open.
type Reading struct {
	RmGapsStrict bool // rm-gaps drops every column holding a non A/C/G/T symbol (true) or only columns holding '-' (false)
	FreqWithGaps bool // base frequencies divide by all characters of the selected columns (true) or by nucleotides only (false)
}

// NtPair is the per-pair result of the oracle.
type NtPair struct {
	Value     float64 // estimator value (meaningful when Defined)
	Defined   bool
	P         float64 // observed proportion of differing comparable sites (mode 0 counting)
	NoDiff    bool    // comparable weight > 0 and no counted difference
	Comp      float64 // comparable weight
	Corrected bool    // model with a correction (d >= p expected)
	MinArg    float64 // smallest logarithm / power base met (ill-conditioned when close to 0)
}

func isNucSet(s int) bool { return s != 0 }

func popcount(s int) int {
	n := 0
	for ; s != 0; s &= s - 1 {
		n++
	}
	return n
}

const purines = 1 | 4     // A|G
const pyrimidines = 2 | 8 // C|T

func selected(rows []string, rd Reading, rmgaps bool) []bool {
	if len(rows) == 0 {
		return nil
	}
	L := len(rows[0])
	sel := make([]bool, L)
	for j := 0; j < L; j++ {
		sel[j] = true
		if !rmgaps {
			continue
		}
		for _, r := range rows {
			c := r[j]
			if rd.RmGapsStrict {
				if popcount(IupacSet(c)) != 1 || fold(c) == 'U' {
					sel[j] = false
				}
			} else if c == '-' {
				sel[j] = false
			}
		}
	}
	return sel
}

func weight(w []float64, j int) float64 {
	if w == nil {
		return 1
	}
	return w[j]
}

// baseFreqs returns pi[A,C,G,T] of the whole alignment on the selected columns,
// ambiguity codes shared equally among their members.
func baseFreqs(rows []string, sel []bool, w []float64, withGaps bool) [4]float64 {
	var pi [4]float64
	total := 0.0
	for _, r := range rows {
		for j := 0; j < len(r); j++ {
			if !sel[j] {
				continue
			}
			s := IupacSet(r[j])
			wj := weight(w, j)
			if s != 0 {
				k := float64(popcount(s))
				for b := 0; b < 4; b++ {
					if s&(1<<uint(b)) != 0 {
						pi[b] += wj / k
					}
				}
				total += wj
			} else if withGaps {
				total += wj
			}
		}
	}
	for b := range pi {
		pi[b] /= total
	}
	return pi
}

var minArg float64

func lg(x float64, gamma bool, alpha float64) (float64, bool) {
	if x < minArg || math.IsNaN(x) {
		minArg = x
	}
	// returns -ln(x) or its gamma counterpart alpha*(x^(-1/alpha)-1); ok=false when undefined
	if !(x > 0) || math.IsNaN(x) || math.IsInf(x, 0) {
		return math.NaN(), false
	}
	if gamma {
		return alpha * (math.Pow(x, -1/alpha) - 1), true
	}
	return -math.Log(x), true
}

// NtDistPair evaluates the published estimator of o.Model for rows[i], rows[j].
func NtDistPair(rows []string, i, j int, o NtOpts, rd Reading) (res NtPair) {
	sel := selected(rows, rd, o.RmGaps)
	a, b := rows[i], rows[j]
	L := len(a)
	first := func(s string) int {
		for k := 0; k < len(s); k++ {
			if isNucSet(IupacSet(s[k])) {
				return k
			}
		}
		return len(s)
	}
	last := func(s string) int {
		for k := len(s) - 1; k >= 0; k-- {
			if isNucSet(IupacSet(s[k])) {
				return k
			}
		}
		return -1
	}
	lo, hi := 0, L-1
	gapmut := o.GapMut
	if o.Model != "pdist" && o.Model != "rawdist" {
		gapmut = 0
	}
	if gapmut == 1 {
		lo = first(a)
		if f := first(b); f > lo {
			lo = f
		}
		hi = last(a)
		if l := last(b); l < hi {
			hi = l
		}
	}
	var diffs, comp, ts, tv, ag, ct float64
	// p under mode-0 counting (for the d >= p relation)
	var d0, c0 float64
	for k := 0; k < L; k++ {
		if !sel[k] {
			continue
		}
		s1, s2 := IupacSet(a[k]), IupacSet(b[k])
		w := weight(o.Weights, k)
		if s1 != 0 && s2 != 0 {
			c0 += w
			if s1&s2 == 0 {
				d0 += w
			}
		}
		var counted bool
		switch gapmut {
		case 0:
			counted = s1 != 0 && s2 != 0
		case 2:
			counted = s1 != 0 || s2 != 0
		case 1:
			counted = (s1 != 0 || s2 != 0) && k >= lo && k <= hi
		}
		if !counted {
			continue
		}
		diff := s1&s2 == 0 // disjoint sets (a gap has the empty set)
		if o.Model == "pdist" && o.RmAmbig && !diff && (popcount(s1) > 1 || popcount(s2) > 1) {
			continue
		}
		comp += w
		if diff {
			diffs += w
			if s1 != 0 && s2 != 0 {
				if (s1|purines == purines && s2|pyrimidines == pyrimidines) || (s1|pyrimidines == pyrimidines && s2|purines == purines) {
					tv += w
				} else if popcount(s1) == 1 && popcount(s2) == 1 {
					ts += w
					if s1|s2 == purines {
						ag += w
					} else {
						ct += w
					}
				}
			}
		}
	}
	res = NtPair{Comp: comp, NoDiff: comp > 0 && diffs == 0, MinArg: 1}
	minArg = 1
	defer func() { res.MinArg = minArg }()
	if c0 > 0 {
		res.P = d0 / c0
		if o.Model == "k2p" || o.Model == "f84" || o.Model == "tn93" {
			// these estimators are functions of the transition / transversion proportions only:
			// differences between ambiguity codes that are neither are not part of their observed proportion
			res.P = (ts + tv) / c0
		}
	} else {
		res.P = math.NaN()
	}
	if o.Model == "rawdist" {
		res.Value, res.Defined = diffs, true
		return res
	}
	if !(comp > 0) {
		return res // undefined: no comparable site
	}
	p := diffs / comp
	P, Q := ts/comp, tv/comp
	P1, P2 := ag/comp, ct/comp
	switch o.Model {
	case "pdist":
		res.Value, res.Defined = p, true
		return res
	case "jc":
		res.Corrected = true
		v, ok := lg(1-4*p/3, o.Gamma, o.Alpha)
		res.Value, res.Defined = 0.75*v, ok
	case "k2p":
		res.Corrected = true
		v1, ok1 := lg(1-2*P-Q, o.Gamma, o.Alpha)
		v2, ok2 := lg(1-2*Q, o.Gamma, o.Alpha)
		res.Value, res.Defined = 0.5*v1+0.25*v2, ok1 && ok2
	case "f81", "f84", "tn93":
		res.Corrected = true
		pi := baseFreqs(rows, sel, o.Weights, rd.FreqWithGaps)
		pA, pC, pG, pT := pi[0], pi[1], pi[2], pi[3]
		pR, pY := pA+pG, pC+pT
		switch o.Model {
		case "f81":
			B := 1 - (pA*pA + pC*pC + pG*pG + pT*pT)
			v, ok := lg(1-p/B, o.Gamma, o.Alpha)
			res.Value, res.Defined = B*v, ok && B > 0
		case "f84":
			A := pA*pG/pR + pC*pT/pY
			B := pA*pG + pC*pT
			C := pR * pY
			v1, ok1 := lg(1-P/(2*A)-(A-B)*Q/(2*A*C), o.Gamma, o.Alpha)
			v2, ok2 := lg(1-Q/(2*C), o.Gamma, o.Alpha)
			res.Value, res.Defined = 2*A*v1-2*(A-B-C)*v2, ok1 && ok2
		case "tn93":
			v1, ok1 := lg(1-pR*P1/(2*pA*pG)-Q/(2*pR), o.Gamma, o.Alpha)
			v2, ok2 := lg(1-pY*P2/(2*pC*pT)-Q/(2*pY), o.Gamma, o.Alpha)
			v3, ok3 := lg(1-Q/(2*pR*pY), o.Gamma, o.Alpha)
			res.Value = 2*pA*pG/pR*v1 + 2*pC*pT/pY*v2 + 2*(pR*pY-pA*pG*pY/pR-pC*pT*pR/pY)*v3
			res.Defined = ok1 && ok2 && ok3
		}
	}
	if math.IsNaN(res.Value) || math.IsInf(res.Value, 0) {
		res.Defined = false
	}
	if res.Defined && res.Value < 0 && res.Value > -1e-9 {
		res.Value = 0
	}
	return res
}

// IllConditioned tells that a logarithm argument is so close to 0 (or the value so
// large) that rounding alone decides between a huge value and "undefined".
func (p NtPair) IllConditioned() bool {
	return math.Abs(p.MinArg) < 1e-6 || (p.Defined && p.Value > 100000)
}

// Close compares two floats with relative and absolute tolerance.
func Close(a, b, rel, abs float64) bool {
	if a == b {
		return true
	}
	if math.IsNaN(a) || math.IsNaN(b) || math.IsInf(a, 0) || math.IsInf(b, 0) {
		return false
	}
	d := math.Abs(a - b)
	if d <= abs {
		return true
	}
	m := math.Max(math.Abs(a), math.Abs(b))
	return d <= rel*m
}
