// Package ref holds the reference models ("oracles"). They are written from the
// documentation / the literature, never by calling the code under test.
package ref

import "strings"

// NCBI translation tables 1, 2 and 5 in the NCBI TCAG order.
var ncbiAAs = [3]string{
	"FFLLSSSSYY**CC*WLLLLPPPPHHQQRRRRIIIMTTTTNNKKSSRRVVVVAAAADDEEGGGG", // 1 standard
	"FFLLSSSSYY**CCWWLLLLPPPPHHQQRRRRIIMMTTTTNNKKSS**VVVVAAAADDEEGGGG", // 2 vertebrate mitochondrial
	"FFLLSSSSYY**CCWWLLLLPPPPHHQQRRRRIIMMTTTTNNKKSSSSVVVVAAAADDEEGGGG", // 5 invertebrate mitochondrial
}

const tcag = "TCAG"

// IUPAC expansion of a nucleotide code (upper case, T for U).
var Iupac = map[byte]string{
	'A': "A", 'C': "C", 'G': "G", 'T': "T",
	'R': "AG", 'Y': "CT", 'S': "CG", 'W': "AT", 'K': "GT", 'M': "AC",
	'B': "CGT", 'D': "AGT", 'H': "ACT", 'V': "ACG", 'N': "ACGT",
}

func fold(c byte) byte {
	if c >= 'a' && c <= 'z' {
		c -= 32
	}
	if c == 'U' {
		c = 'T'
	}
	return c
}

// Expansions returns all unambiguous codons of an IUPAC codon, or nil if a
// position is not a nucleotide code.
func Expansions(n1, n2, n3 byte) []string {
	e1, ok1 := Iupac[fold(n1)]
	e2, ok2 := Iupac[fold(n2)]
	e3, ok3 := Iupac[fold(n3)]
	if !ok1 || !ok2 || !ok3 {
		return nil
	}
	var out []string
	for i := 0; i < len(e1); i++ {
		for j := 0; j < len(e2); j++ {
			for k := 0; k < len(e3); k++ {
				out = append(out, string([]byte{e1[i], e2[j], e3[k]}))
			}
		}
	}
	return out
}

// TranslateCodon applies the rule of property C05.
func TranslateCodon(n1, n2, n3 byte, code int) byte {
	if n1 == '-' && n2 == '-' && n3 == '-' {
		return '-'
	}
	exp := Expansions(n1, n2, n3)
	if len(exp) == 0 {
		return 'X'
	}
	var aa byte
	for _, c := range exp {
		i := strings.IndexByte(tcag, c[0])*16 + strings.IndexByte(tcag, c[1])*4 + strings.IndexByte(tcag, c[2])
		a := ncbiAAs[code][i]
		if aa != 0 && a != aa {
			return 'X'
		}
		aa = a
	}
	return aa
}

// Translate translates s from offset frame; ok is false when the result would
// be empty (floor((L-frame)/3) == 0).
func Translate(s string, frame, code int) (string, bool) {
	n := (len(s) - frame) / 3
	if len(s)-frame < 3 || n <= 0 {
		return "", false
	}
	out := make([]byte, n)
	for i := 0; i < n; i++ {
		p := frame + 3*i
		out[i] = TranslateCodon(s[p], s[p+1], s[p+2], code)
	}
	return string(out), true
}

// Complement of one IUPAC nucleotide symbol (set complement of its meaning),
// case preserved; gap-like symbols are fixed. ok=false for non nucleotide symbols.
func Complement(c byte) (byte, bool) {
	lower := c >= 'a' && c <= 'z'
	u := c
	if lower {
		u -= 32
	}
	var r byte
	switch u {
	case 'A':
		r = 'T'
	case 'T':
		r = 'A'
	case 'C':
		r = 'G'
	case 'G':
		r = 'C'
	case 'R':
		r = 'Y'
	case 'Y':
		r = 'R'
	case 'K':
		r = 'M'
	case 'M':
		r = 'K'
	case 'B':
		r = 'V'
	case 'V':
		r = 'B'
	case 'D':
		r = 'H'
	case 'H':
		r = 'D'
	case 'S', 'W', 'N', '-', '.', '*':
		r = u
	default:
		return c, false
	}
	if lower {
		r += 32
	}
	return r, true
}

// RevComp of a sequence; ok=false if a symbol cannot be complemented.
func RevComp(s string) (string, bool) {
	b := make([]byte, len(s))
	for i := 0; i < len(s); i++ {
		c, ok := Complement(s[i])
		if !ok {
			return "", false
		}
		b[len(s)-1-i] = c
	}
	return string(b), true
}

// IupacSet returns the bit set (A=1,C=2,G=4,T=8) of a nucleotide symbol, 0 if none.
func IupacSet(c byte) int {
	e, ok := Iupac[fold(c)]
	if !ok {
		return 0
	}
	m := 0
	for i := 0; i < len(e); i++ {
		m |= 1 << uint(strings.IndexByte("ACGT", e[i]))
	}
	return m
}
