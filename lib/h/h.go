// Package h holds helpers that sit between the plain list-of-rows world of the
// reference models and goalign's containers.
package h

import (
	"fmt"
	"strings"

	"github.com/evolbioinfo/goalign/align"

	"verif/lib/gen"
)

// MkAlign builds an alignment from rows (names must be unique, equal lengths).
func MkAlign(rows gen.Rows, alphabet int) align.Alignment {
	a := align.NewAlign(alphabet)
	for _, r := range rows {
		if err := a.AddSequence(r.Name, r.Seq, ""); err != nil {
			panic("harness: MkAlign: " + err.Error())
		}
	}
	return a
}

// MkAlignAuto builds an alignment and lets goalign detect the alphabet.
func MkAlignAuto(rows gen.Rows) align.Alignment {
	a := MkAlign(rows, align.UNKNOWN)
	a.AutoAlphabet()
	return a
}

func MkSeqBag(rows gen.Rows, alphabet int) align.SeqBag {
	a := align.NewSeqBag(alphabet)
	for _, r := range rows {
		if err := a.AddSequence(r.Name, r.Seq, ""); err != nil {
			panic("harness: MkSeqBag: " + err.Error())
		}
	}
	return a
}

// Snap reads the container through Iterate.
func Snap(sb align.SeqBag) gen.Rows {
	rows := gen.Rows{}
	sb.Iterate(func(name, seq string) bool {
		rows = append(rows, gen.Seq{Name: name, Seq: seq})
		return false
	})
	return rows
}

func EqRows(a, b gen.Rows) bool {
	if len(a) != len(b) {
		return false
	}
	for i := range a {
		if a[i] != b[i] {
			return false
		}
	}
	return true
}

// Show renders rows compactly for violation details.
func Show(r gen.Rows) string {
	var sb strings.Builder
	sb.WriteString("[")
	for i, s := range r {
		if i > 0 {
			sb.WriteString(" ")
		}
		if i >= 14 {
			fmt.Fprintf(&sb, "…(%d rows)", len(r))
			break
		}
		q := s.Seq
		if len(q) > 130 {
			q = q[:130] + "…"
		}
		fmt.Fprintf(&sb, "%q:%s", s.Name, q)
	}
	sb.WriteString("]")
	return sb.String()
}

// Invariants wraps the verif-tagged hook.
func Invariants(x interface{}) []string { return align.VerifInvariants(x) }

// CheckRect verifies that an alignment is rectangular with the reported length
// and that the hook is clean. Returns "" when fine.
func CheckRect(a align.Alignment) string {
	n := a.NbSequences()
	L := a.Length()
	bad := ""
	a.Iterate(func(name, s string) bool {
		if len(s) != L {
			bad = fmt.Sprintf("row %q has %d residues, Length() is %d", name, len(s), L)
			return true
		}
		return false
	})
	if bad != "" {
		return bad
	}
	if n == 0 {
		return ""
	}
	if p := align.VerifInvariants(a); len(p) > 0 {
		return "invariant hook: " + strings.Join(p, "; ")
	}
	return ""
}
