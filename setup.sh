#!/bin/sh
# MANIFEST.setup_cmd: offline build of the driver (monitors are rebuilt by every check from /repo's working tree).
set -e
cd /verif
export GOFLAGS=-mod=mod GOPROXY=off GOSUMDB=off GOTOOLCHAIN=local
mkdir -p .bin .scratch evidence replays
cp /repo/go.sum /verif/go.sum 2>/dev/null || true
go build -o .bin/vcheck ./cmd/vcheck
echo setup ok
