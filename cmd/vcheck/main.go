// vcheck is the driver: it builds the monitor(s) of one property against the
// current working tree of /repo (build tag verif, optionally -race), runs them
// as sharded child processes with a write-ahead case log, classifies crashes,
// merges the summaries, matches violations against known_findings.txt, writes
// evidence/<id>.json and prints VIOLATION / KNOWN-FINDING / INCONCLUSIVE lines.
//
//	vcheck <id> quick|thorough
//	vcheck replay <replay.json>
package main

import (
	"bufio"
	"bytes"
	"crypto/sha1"
	"encoding/json"
	"fmt"
	"os"
	"os/exec"
	"path/filepath"
	"regexp"
	"runtime"
	"sort"
	"strconv"
	"strings"
	"sync"
	"syscall"
	"time"

	"verif/lib/mon"
)

const verifDir = "/verif"

type propCfg struct {
	exitOK    bool // io.ExitWithMessage (os.Exit(1) + "[Error] in") is an accepted explicit error
	ulimitKB  int  // address-space limit of non-race children (0 = none)
	shards    int  // 0 = number of CPUs
	watchQ    time.Duration
	watchT    time.Duration
	level     string
	techSmall string
}

var cfgs = map[string]propCfg{
	"C03": {exitOK: true, ulimitKB: 4000000},
}

func cfgOf(id string) propCfg {
	c := cfgs[id]
	if c.shards == 0 {
		c.shards = runtime.NumCPU()
		if c.shards > 16 {
			c.shards = 16
		}
	}
	if c.watchQ == 0 {
		c.watchQ = 20 * time.Minute
	}
	if c.watchT == 0 {
		c.watchT = 120 * time.Minute
	}
	if c.level == "" {
		c.level = "exploration"
	}
	return c
}

func goEnv() []string {
	env := os.Environ()
	env = append(env, "GOFLAGS=-mod=mod", "GOPROXY=off", "GOSUMDB=off", "GOTOOLCHAIN=local", "CGO_ENABLED=1")
	return env
}

// treeOverride: VERIF_TREE=<dir> makes the driver build the monitors against ANOTHER goalign tree (a scratch
// worktree carrying a seeded change or a candidate fix) instead of /repo, without touching /repo: the evidence
// file is not written then. Not used by the registered checks.
func treeOverride() string { return os.Getenv("VERIF_TREE") }

func repoPath() string {
	if t := treeOverride(); t != "" {
		return t
	}
	return "/repo"
}

func build(id string, race bool) (string, error) {
	bin := filepath.Join(verifDir, ".bin", strings.ToLower(id))
	args := []string{"build", "-tags", "verif"}
	if t := treeOverride(); t != "" {
		h := sha1.Sum([]byte(t))
		dir := filepath.Join(verifDir, ".scratch", fmt.Sprintf("tree-%x", h[:4]))
		os.MkdirAll(dir, 0755)
		gm, err := os.ReadFile(filepath.Join(verifDir, "go.mod"))
		if err != nil {
			return "", err
		}
		os.WriteFile(filepath.Join(dir, "go.mod"), bytes.ReplaceAll(gm, []byte("=> /repo"), []byte("=> "+t)), 0644)
		gs, _ := os.ReadFile(filepath.Join(verifDir, "go.sum"))
		os.WriteFile(filepath.Join(dir, "go.sum"), gs, 0644)
		// -trimpath: the packages of the other tree that are identical to ones built before (other scratch worktrees)
		// come from the build cache instead of being compiled again under their new directory
		args = append(args, "-trimpath", "-modfile", filepath.Join(dir, "go.mod"))
		bin += fmt.Sprintf("-tree-%x", h[:4])
	}
	if race {
		bin += "-race"
		args = append(args, "-race")
	}
	args = append(args, "-o", bin, "./mon/"+strings.ToLower(id))
	os.MkdirAll(filepath.Dir(bin), 0755)
	cmd := exec.Command("go", args...)
	cmd.Dir = verifDir
	cmd.Env = goEnv()
	out, err := cmd.CombinedOutput()
	if err != nil {
		return "", fmt.Errorf("go %s: %v\n%s", strings.Join(args, " "), err, out)
	}
	return bin, nil
}

type known struct {
	status, prop, sub, what string
	sig                     *regexp.Regexp
	printed                 bool
}

// known_findings.txt lines:
//
//	fixed: property=C01 <commit> <what failed>
//	known: property=C11 sub=<regex> sig=<regex> :: <what fails>
func loadKnown() []*known {
	f, err := os.Open(filepath.Join(verifDir, "known_findings.txt"))
	if err != nil {
		return nil
	}
	defer f.Close()
	var ks []*known
	sc := bufio.NewScanner(f)
	for sc.Scan() {
		l := strings.TrimSpace(sc.Text())
		if !strings.HasPrefix(l, "known:") {
			continue
		}
		k := &known{status: "known"}
		parts := strings.SplitN(l[len("known:"):], "::", 2)
		if len(parts) != 2 {
			continue
		}
		k.what = strings.TrimSpace(parts[1])
		for _, f := range strings.Fields(parts[0]) {
			kv := strings.SplitN(f, "=", 2)
			if len(kv) != 2 {
				continue
			}
			switch kv[0] {
			case "property":
				k.prop = kv[1]
			case "sub":
				k.sub = kv[1]
			case "sig":
				k.sig, _ = regexp.Compile(kv[1])
			}
		}
		if k.prop != "" && k.sig != nil {
			ks = append(ks, k)
		}
	}
	return ks
}

type shardResult struct {
	sums      []mon.Summary
	extra     []mon.Violation // crashes, races, exits
	exitErrs  int
	inconcl   []string
	restarts  int
	crashes   int
	raceBuild bool
}

var reRaceFrame = regexp.MustCompile(`(?m)^\s+(github\.com/evolbioinfo/goalign/[^\s(]+(?:\([^)]*\))?[^\s(]*)\(`)

func raceSig(stderr string) string {
	// signature: the first two distinct goalign frames of the report
	ms := reRaceFrame.FindAllStringSubmatch(stderr, -1)
	seen := map[string]bool{}
	var fr []string
	for _, m := range ms {
		n := m[1]
		if j := strings.LastIndex(n, "/"); j >= 0 {
			n = n[j+1:]
		}
		if !seen[n] {
			seen[n] = true
			fr = append(fr, n)
		}
		if len(fr) == 2 {
			break
		}
	}
	return "race:" + strings.Join(fr, "+")
}

func lastOpen(wal string) (sub string, idx int, ok bool) {
	f, err := os.Open(wal)
	if err != nil {
		return "", 0, false
	}
	defer f.Close()
	sc := bufio.NewScanner(f)
	sc.Buffer(make([]byte, 1<<20), 1<<20)
	open := ""
	for sc.Scan() {
		l := sc.Text()
		if strings.HasPrefix(l, "B ") {
			open = l[2:]
		} else if strings.HasPrefix(l, "E ") {
			if l[2:] == open {
				open = ""
			}
		}
	}
	if open == "" {
		return "", 0, false
	}
	i := strings.LastIndex(open, " ")
	idx, _ = strconv.Atoi(open[i+1:])
	return open[:i], idx, true
}

func tail(s string, n int) string {
	if len(s) > n {
		return "…" + s[len(s)-n:]
	}
	return s
}

func head(s string, n int) string {
	if len(s) > n {
		return s[:n] + "…"
	}
	return s
}

func runShard(id, bin string, cfg propCfg, race bool, tier string, seed uint64, shard, nshards int, scratch string, watchdog time.Duration) shardResult {
	res := shardResult{raceBuild: race}
	resume := ""
	var skips []string
	tag := fmt.Sprintf("%s-r%d-s%d", id, b2i(race), shard)
	for attempt := 0; ; attempt++ {
		out := filepath.Join(scratch, fmt.Sprintf("%s-a%d.json", tag, attempt))
		wal := filepath.Join(scratch, fmt.Sprintf("%s-a%d.wal", tag, attempt))
		errf := filepath.Join(scratch, fmt.Sprintf("%s-a%d.stderr", tag, attempt))
		args := []string{"-tier", tier, "-seed", strconv.FormatUint(seed, 10), "-shard", strconv.Itoa(shard), "-nshards", strconv.Itoa(nshards),
			"-out", out, "-wal", wal, "-race", strconv.Itoa(b2i(race))}
		if resume != "" {
			args = append(args, "-resume", resume)
		}
		if len(skips) > 0 {
			args = append(args, "-skip", strings.Join(skips, ","))
		}
		var cmd *exec.Cmd
		if cfg.ulimitKB > 0 && !race {
			sh := fmt.Sprintf("ulimit -v %d; exec \"$0\" \"$@\"", cfg.ulimitKB)
			cmd = exec.Command("sh", append([]string{"-c", sh, bin}, args...)...)
		} else {
			cmd = exec.Command(bin, args...)
		}
		cmd.Dir = scratch
		ef, _ := os.Create(errf)
		cmd.Stderr = ef
		cmd.Stdout = ef
		cmd.Env = append(os.Environ(), "VERIF_SCRATCH="+scratch, "VERIF_REPO="+repoPath())
		if race {
			cmd.Env = append(cmd.Env, "GORACE=halt_on_error=1 exitcode=66")
		}
		if err := cmd.Start(); err != nil {
			res.inconcl = append(res.inconcl, "cannot start child: "+err.Error())
			ef.Close()
			return res
		}
		done := make(chan error, 1)
		go func() { done <- cmd.Wait() }()
		var werr error
		timedOut := false
		select {
		case werr = <-done:
		case <-time.After(watchdog):
			timedOut = true
			cmd.Process.Signal(syscall.SIGQUIT)
			select {
			case werr = <-done:
			case <-time.After(20 * time.Second):
				cmd.Process.Kill()
				werr = <-done
			}
		}
		ef.Close()
		complete := false
		for seg := 0; ; seg++ {
			b, err := os.ReadFile(out + "." + strconv.Itoa(seg))
			if err != nil {
				break
			}
			var s mon.Summary
			if json.Unmarshal(b, &s) != nil {
				break
			}
			res.sums = append(res.sums, s)
			if s.Pos != "" {
				resume = s.Pos
			}
			complete = s.Complete
		}
		if complete {
			return res
		}
		stderrB, _ := os.ReadFile(errf)
		stderr := string(stderrB)
		sub, idx, ok := lastOpen(wal)
		if timedOut {
			res.inconcl = append(res.inconcl, fmt.Sprintf("watchdog (%v) fired in shard %d at case %s#%d; goroutine dump: %s", watchdog, shard, sub, idx, tail(stderr, 1500)))
			return res
		}
		if !ok {
			res.inconcl = append(res.inconcl, fmt.Sprintf("child of shard %d died outside any case (%v): %s", shard, werr, tail(stderr, 1500)))
			return res
		}
		code := -1
		if ee, isEE := werr.(*exec.ExitError); isEE {
			code = ee.ExitCode()
		}
		isExitErr := false
		switch {
		case code == 77 && strings.Contains(stderr, "CPU-BUDGET exceeded"):
			res.extra = append(res.extra, mon.Violation{Sub: sub, Idx: idx, Sig: "non-termination:cpu-budget", Detail: "the case did not finish within its CPU-time budget: " + tail(stderr, 400)})
		case code == 1 && strings.Contains(tail(stderr, 600), "[Error] in ") && !strings.Contains(stderr, "goroutine ") && cfg.exitOK:
			res.exitErrs++
			isExitErr = true
		case code == 66 || strings.Contains(stderr, "WARNING: DATA RACE"):
			res.extra = append(res.extra, mon.Violation{Sub: sub, Idx: idx, Sig: raceSig(stderr), Detail: "race detector report:\n" + head(stderr, 5000)})
		case code == 1 && strings.Contains(tail(stderr, 600), "[Error] in ") && !strings.Contains(stderr, "goroutine "):
			res.extra = append(res.extra, mon.Violation{Sub: sub, Idx: idx, Sig: "os.Exit:" + exitSite(stderr), Detail: "library called os.Exit during the case: " + tail(stderr, 600)})
		default:
			res.extra = append(res.extra, mon.Violation{Sub: sub, Idx: idx, Sig: "died:" + dieSig(stderr), Detail: fmt.Sprintf("child died (%v):\n%s", werr, head(stderr, 5000))})
		}
		res.restarts++
		if !isExitErr {
			res.crashes++
		}
		if res.crashes > 40 {
			res.inconcl = append(res.inconcl, fmt.Sprintf("shard %d: more than 40 child deaths, remaining cases not run", shard))
			return res
		}
		// the next child resumes after the last flushed segment and skips the cases that killed a child
		skips = append(skips, sub+":"+strconv.Itoa(idx))
	}
}

var reExitSite = regexp.MustCompile(`\[Error\] in ([^ ]+) \(line (\d+)\)`)

func exitSite(stderr string) string {
	m := reExitSite.FindStringSubmatch(stderr)
	if m == nil {
		return "unknown"
	}
	return m[1]
}

func dieSig(stderr string) string {
	for _, l := range strings.Split(stderr, "\n") {
		if strings.HasPrefix(l, "fatal error:") || strings.HasPrefix(l, "panic:") {
			l = strings.TrimSpace(l)
			for _, k := range []string{"out of memory", "index out of range", "slice bounds out of range", "nil pointer dereference", "all goroutines are asleep", "stack overflow", "cannot allocate memory"} {
				if strings.Contains(l, k) {
					return k + "@" + mon.TopFrame(stderr)
				}
			}
			return head(l, 60) + "@" + mon.TopFrame(stderr)
		}
	}
	return "unknown"
}

func b2i(b bool) int {
	if b {
		return 1
	}
	return 0
}

type evidence struct {
	PropertyID  string                 `json:"property_id"`
	Tier        string                 `json:"tier"`
	Seed        uint64                 `json:"seed"`
	Level       string                 `json:"level"`
	Coverage    map[string]interface{} `json:"coverage"`
	Assumptions []string               `json:"assumptions"`
	WallS       float64                `json:"wall_s"`
	Violations  int                    `json:"violations"`
}

func main() {
	if len(os.Args) < 3 {
		fmt.Fprintln(os.Stderr, "usage: vcheck <id> quick|thorough | vcheck replay <file>")
		os.Exit(3)
	}
	if os.Args[1] == "replay" {
		os.Exit(replay(os.Args[2]))
	}
	id := strings.ToUpper(os.Args[1])
	tier := os.Args[2]
	if tier != "quick" && tier != "thorough" {
		fmt.Fprintln(os.Stderr, "tier must be quick or thorough")
		os.Exit(3)
	}
	seed := uint64(1)
	if s := os.Getenv("VERIF_SEED"); s != "" {
		if v, err := strconv.ParseUint(s, 10, 64); err == nil {
			seed = v
		} else if v, err := strconv.ParseInt(s, 10, 64); err == nil {
			seed = uint64(v)
		}
	}
	os.Exit(check(id, tier, seed))
}

func check(id, tier string, seed uint64) int {
	start := time.Now()
	cfg := cfgOf(id)
	evPath := filepath.Join(verifDir, "evidence", id+".json")
	if treeOverride() != "" {
		evPath = filepath.Join(verifDir, ".scratch", "evidence-of-another-tree-"+id+".json")
	}
	os.Remove(evPath)
	bin, err := build(id, false)
	if err != nil {
		fmt.Printf("INCONCLUSIVE property=%s build failed: %v\n", id, err)
		return 2
	}
	lo, err := exec.Command(bin, "-list").Output()
	if err != nil {
		fmt.Printf("INCONCLUSIVE property=%s cannot list sub-checks: %v\n", id, err)
		return 2
	}
	var infos []mon.SubInfo
	json.Unmarshal(lo, &infos)
	needRace, needPlain := false, false
	for _, s := range infos {
		n := s.Quick
		if tier == "thorough" {
			n = s.Thorough
		}
		if n == 0 {
			continue
		}
		if s.Race {
			needRace = true
		} else {
			needPlain = true
		}
	}
	raceBin := ""
	if needRace {
		if raceBin, err = build(id, true); err != nil {
			fmt.Printf("INCONCLUSIVE property=%s race build failed: %v\n", id, err)
			return 2
		}
	}
	os.MkdirAll(filepath.Join(verifDir, ".scratch"), 0755)
	scratch, err := os.MkdirTemp(filepath.Join(verifDir, ".scratch"), id+"-")
	if err != nil {
		fmt.Printf("INCONCLUSIVE property=%s scratch: %v\n", id, err)
		return 2
	}
	defer os.RemoveAll(scratch)
	watchdog := cfg.watchQ
	if tier == "thorough" {
		watchdog = cfg.watchT
	}

	var mu sync.Mutex
	var results []shardResult
	var wg sync.WaitGroup
	sem := make(chan struct{}, cfg.shards)
	launch := func(b string, race bool) {
		for sh := 0; sh < cfg.shards; sh++ {
			wg.Add(1)
			go func(sh int) {
				defer wg.Done()
				sem <- struct{}{}
				defer func() { <-sem }()
				r := runShard(id, b, cfg, race, tier, seed, sh, cfg.shards, scratch, watchdog)
				mu.Lock()
				results = append(results, r)
				mu.Unlock()
			}(sh)
		}
	}
	if needPlain {
		launch(bin, false)
	}
	wg.Wait()
	if needRace {
		launch(raceBin, true)
	}
	wg.Wait()

	// merge
	evals := 0
	perSub := map[string]int{}
	counters := map[string]int{}
	nt := map[uint64]struct{}{}
	var samples []mon.Sample
	var viols []mon.Violation
	violCount := map[string]int{}
	floors := map[string]int{}
	notes := map[string]string{}
	var inconcl []string
	exitErrs, restarts, raceRuns := 0, 0, 0
	sort.Slice(results, func(i, j int) bool {
		if len(results[i].sums) == 0 || len(results[j].sums) == 0 {
			return len(results[i].sums) > len(results[j].sums)
		}
		return results[i].sums[0].Shard < results[j].sums[0].Shard
	})
	for _, r := range results {
		inconcl = append(inconcl, r.inconcl...)
		exitErrs += r.exitErrs
		restarts += r.restarts
		for _, v := range r.extra {
			viols = append(viols, v)
			violCount[v.Sub+"|"+v.Sig]++
		}
		for _, s := range r.sums {
			if r.raceBuild {
				raceRuns += s.Evaluations
			}
			evals += s.Evaluations
			for k, v := range s.PerSub {
				perSub[k] += v
			}
			for k, v := range s.Counters {
				if strings.HasPrefix(k, "max:") {
					if v > counters[k] {
						counters[k] = v
					}
				} else {
					counters[k] += v
				}
			}
			for _, h := range s.NonTrivial {
				nt[h] = struct{}{}
			}
			if len(samples) < 6 {
				for _, sm := range s.Samples {
					dup := false
					for _, o := range samples {
						if o.Sub == sm.Sub {
							dup = true
						}
					}
					if !dup || len(samples) < 3 {
						samples = append(samples, sm)
					}
					if len(samples) >= 8 {
						break
					}
				}
			}
			viols = append(viols, s.Violations...)
			for k, v := range s.ViolCount {
				violCount[k] += v
			}
			for k, v := range s.Floors {
				floors[k] = v
			}
			for k, v := range s.Notes {
				notes[k] = v
			}
		}
	}
	evals += restarts // the cases that killed a child were executed too
	// coverage floors
	for k, min := range floors {
		want := min
		if strings.HasPrefix(k, "q:") {
			if tier != "quick" {
				continue
			}
		}
		if strings.HasPrefix(k, "t:") {
			if tier != "thorough" {
				continue
			}
		}
		ck := strings.TrimPrefix(strings.TrimPrefix(k, "q:"), "t:")
		if counters[ck] < want {
			inconcl = append(inconcl, fmt.Sprintf("coverage floor missed: %s=%d < %d", ck, counters[ck], want))
		}
	}

	// known findings
	ks := loadKnown()
	type group struct {
		key   string
		first mon.Violation
		n     int
	}
	groups := map[string]*group{}
	var order []string
	for _, v := range viols {
		k := v.Sub + "|" + v.Sig
		if g, ok := groups[k]; ok {
			_ = g
			continue
		}
		groups[k] = &group{key: k, first: v, n: violCount[k]}
		order = append(order, k)
	}
	sort.Strings(order)
	unmatched := 0
	knownLines := 0
	os.MkdirAll(filepath.Join(verifDir, "replays"), 0755)
	for _, k := range order {
		g := groups[k]
		var hit *known
		for _, kf := range ks {
			if kf.prop != id || !kf.sig.MatchString(g.first.Sig) {
				continue
			}
			if kf.sub != "" {
				if ok, _ := regexp.MatchString(kf.sub, g.first.Sub); !ok {
					continue
				}
			}
			hit = kf
			break
		}
		if hit != nil {
			if !hit.printed {
				fmt.Printf("KNOWN-FINDING: property=%s %s\n", id, hit.what)
				hit.printed = true
				knownLines++
			}
			continue
		}
		unmatched++
		isRace := strings.HasPrefix(g.first.Sig, "race:")
		rp := map[string]interface{}{"property": id, "sub": g.first.Sub, "idx": g.first.Idx, "seed": seed, "tier": tier, "sig": g.first.Sig,
			"detail": g.first.Detail, "input": g.first.Input, "occurrences": g.n, "race_build": isRace || subIsRace(infos, g.first.Sub)}
		b, _ := json.MarshalIndent(rp, "", " ")
		h := sha1.Sum([]byte(fmt.Sprintf("%s|%s|%d|%d", id, k, g.first.Idx, seed)))
		path := filepath.Join(verifDir, "replays", fmt.Sprintf("%s-%x.json", id, h[:5]))
		os.WriteFile(path, b, 0644)
		fmt.Printf("VIOLATION property=%s replay=%s\n", id, path)
		fmt.Printf("  sub=%s case=%d sig=%s occurrences=%d\n  %s\n", g.first.Sub, g.first.Idx, g.first.Sig, g.n, strings.ReplaceAll(head(g.first.Detail, 1200), "\n", "\n  "))
	}

	// evidence
	var samplesOut []interface{}
	for _, s := range samples {
		samplesOut = append(samplesOut, s)
	}
	if samplesOut == nil {
		samplesOut = []interface{}{}
	}
	cov := map[string]interface{}{
		"evaluations":         evals,
		"distinct_nontrivial": len(nt),
		"rule":                notes["rule"],
		"samples":             samplesOut,
		"per_subcheck":        perSub,
		"counters":            counters,
		"coverage_floors":     floors,
		"children_restarted_after_crash": restarts,
		"explicit_exit_errors_accepted":  exitErrs,
		"known_finding_lines":            knownLines,
		"inconclusive":                   nonNil(inconcl),
		"exhaustive":                     false,
	}
	if needRace {
		cov["race_detector"] = map[string]interface{}{"build": "go build -race -tags verif", "cases_run_under_race_detector": raceRuns, "GORACE": "halt_on_error=1 exitcode=66 (a report kills the child; the write-ahead log names the case)"}
	}
	if v, ok := notes["exhaustive_subspaces"]; ok {
		cov["exhaustive_subspaces"] = v
	}
	var assumptions []string
	if a := notes["assumptions"]; a != "" {
		for _, s := range strings.Split(a, ";;") {
			assumptions = append(assumptions, strings.TrimSpace(s))
		}
	}
	ev := evidence{PropertyID: id, Tier: tier, Seed: seed, Level: cfg.level, Coverage: cov, Assumptions: assumptions, WallS: time.Since(start).Seconds(), Violations: unmatched}
	eb, _ := json.MarshalIndent(ev, "", " ")
	os.MkdirAll(filepath.Dir(evPath), 0755)
	os.WriteFile(evPath, eb, 0644)

	fmt.Printf("%s %s seed=%d: %d cases, %d distinct non-trivial, %d violation group(s), %d known, %.1fs\n", id, tier, seed, evals, len(nt), unmatched, knownLines, time.Since(start).Seconds())
	if unmatched > 0 {
		return 1
	}
	if len(inconcl) > 0 {
		for _, s := range inconcl {
			fmt.Printf("INCONCLUSIVE property=%s %s\n", id, head(s, 2000))
		}
		return 2
	}
	if evals == 0 || len(nt) < 2 {
		fmt.Printf("INCONCLUSIVE property=%s observed too little (evaluations=%d distinct_nontrivial=%d)\n", id, evals, len(nt))
		return 2
	}
	return 0
}

func subIsRace(infos []mon.SubInfo, sub string) bool {
	for _, s := range infos {
		if s.Name == sub {
			return s.Race
		}
	}
	return false
}

func replay(path string) int {
	b, err := os.ReadFile(path)
	if err != nil {
		fmt.Fprintln(os.Stderr, err)
		return 3
	}
	var rp struct {
		Property string `json:"property"`
		Sub      string `json:"sub"`
		Idx      int    `json:"idx"`
		Seed     uint64 `json:"seed"`
		Tier     string `json:"tier"`
		Race     bool   `json:"race_build"`
	}
	if err := json.Unmarshal(b, &rp); err != nil {
		fmt.Fprintln(os.Stderr, err)
		return 3
	}
	bin, err := build(rp.Property, rp.Race)
	if err != nil {
		fmt.Fprintln(os.Stderr, err)
		return 3
	}
	cfg := cfgOf(rp.Property)
	args := []string{"-only", rp.Sub + ":" + strconv.Itoa(rp.Idx), "-seed", strconv.FormatUint(rp.Seed, 10), "-tier", rp.Tier}
	var cmd *exec.Cmd
	if cfg.ulimitKB > 0 && !rp.Race {
		cmd = exec.Command("sh", append([]string{"-c", fmt.Sprintf("ulimit -v %d; exec \"$0\" \"$@\"", cfg.ulimitKB), bin}, args...)...)
	} else {
		cmd = exec.Command(bin, args...)
	}
	os.MkdirAll(filepath.Join(verifDir, ".scratch"), 0755)
	scratch, _ := os.MkdirTemp(filepath.Join(verifDir, ".scratch"), "replay-")
	defer os.RemoveAll(scratch)
	cmd.Dir = scratch
	cmd.Env = append(os.Environ(), "VERIF_SCRATCH="+scratch, "VERIF_REPO="+repoPath())
	if rp.Race {
		cmd.Env = append(cmd.Env, "GORACE=halt_on_error=1 exitcode=66")
	}
	var buf bytes.Buffer
	cmd.Stdout = &buf
	cmd.Stderr = &buf
	err = cmd.Run()
	fmt.Print(head(buf.String(), 20000))
	if err != nil {
		fmt.Printf("\nVIOLATION property=%s replay=%s\n", rp.Property, path)
		return 1
	}
	fmt.Println("replayed case passes on the current tree")
	return 0
}

func nonNil(s []string) []string {
	if s == nil {
		return []string{}
	}
	return s
}
